//! C16 — written range and location lists read back as the same lists.
//!
//! Oracle (all written here, nothing shared with `gimli::write` or `gimli::read`):
//!  * a small model of what a `write::RangeList` / `write::LocationList` *means*
//!    (`classify_*`: which lists the chosen encoding cannot represent; `resolve`: the
//!    ranges a list denotes relative to the unit's DW_AT_low_pc);
//!  * an independent decoder of `.debug_ranges` / `.debug_loc` (legacy pair format) and
//!    `.debug_rnglists` / `.debug_loclists` (DW_RLE_* / DW_LLE_* with the v5 table header);
//!  * an independent encoder of the location expressions (so that entry references are
//!    compared with the DIE offsets found in the emitted `.debug_info`).
//!
//! Pinned-behaviour notes (listed in `assumptions`): marker collisions of the legacy
//! encoding (begin = all-ones) and 64-bit wrap-around of `begin + length` are recorded, not
//! judged; ranges in the reader's tombstone/empty/inverted filter class may be reported or
//! dropped by the resolved iterators (the raw iterators and the byte decoder are strict).

use crate::asm::{get_uint, sleb_bytes, uleb_bytes, Asm, Enc};
use crate::props::PropInfo;
use crate::rt::{fnv, hex, Ctx, Rng};
use gimli::constants as dw;
use gimli::write as w;
use gimli::write::Address;
use serde_json::json;
use std::collections::BTreeMap;

/// Local skip (see report): `Range::StartLength`/`Location::StartLength` in a v<=4 unit
/// computes `begin + length` with a plain `+` (src/write/range.rs, src/write/loc.rs): debug
/// builds panic with "attempt to add with overflow", release builds wrap and emit a pair
/// that is read back as something else.  While this is `true` such cases are still
/// executed, but the panic / wrong read-back is only counted (`known.*`), not reported.
const KNOWN_STARTLENGTH_OVERFLOW: bool = false;

pub fn info() -> PropInfo {
    PropInfo {
        id: "C16",
        level: "exploration",
        rule: "Two streams. `table`: complete enumeration of single-item (optionally preceded by a BaseAddress item) range and location lists over 64 encodings (versions 2-5 x Dwarf32/64 x address sizes 1/2/4/8 x both byte orders) x unit DW_AT_low_pc absent/zero/non-zero x item kind (BaseAddress, OffsetPair, StartEnd, StartLength, DefaultLocation) x 10 value patterns (normal, empty, (0,0), begin 0, begin all-ones, begin all-ones-1, wrapping/inverted, too large for the address size, end all-ones, maximal length). `rand`: seeded write::Dwarf objects with 1-3 units (independent encodings, shared byte order), each with 1-6 range lists and 1-6 location lists incl. exact duplicates and near-duplicates, 0-5 items per list with boundary addresses/offsets/lengths (0, 1, max-1, max, wrap-around sums), location expressions built from 30 operation builders incl. in-unit entry references (typed ops, call4, GNU_parameter_ref, nested entry_value) and cross-unit references (call_ref, implicit_pointer, GNU_variable_value, also forward to later units), list attributes DW_AT_ranges/DW_AT_start_scope/DW_AT_location/DW_AT_frame_base on the root or nested DIEs, decoy low_pc/entry_pc/high_pc attributes; 60% of the cases are representable, 30% get exactly one unrepresentable item (empty, needs base, conflicts with base, default location before v5, value too large) and 10% one legacy-marker collision or 64-bit overflow. Every case is written with Sections<EndianVec>; the outcome is compared with the model's verdict; on success the sections are decoded by the harness's own decoder (encoding per version, v5 table header, lists tile the section exactly = one copy per distinct list) and read back with read::Dwarf (attr_ranges_offset/attr_ranges/raw_ranges, attr_locations_offset/attr_locations/raw_locations) and compared with the model (raw entries strictly, resolved ranges through the unit base address). A case is non-trivial when it contains at least one list item; distinct cases are counted by a digest of the complete case description.",
        assumptions: &[
            "an absent DW_AT_low_pc on the unit root means base address 0 for offset pairs (what read::Unit reports)",
            "in a version 5 unit every kind is representable (empty ranges, offset pairs without a base, start/end after a base, default locations) and must be written",
            "operand values that do not fit the unit's address size are unrepresentable and must be rejected; which Error variant is returned is only recorded",
            "legacy marker collisions (begin = all-ones in a v<=4 pair) are generated and their outcome recorded, not judged; the other lists of such a case are still compared",
            "resolved iterators may drop (or report with exactly the wrapped values) ranges that are empty, inverted after wrapping to the address size, or whose begin/base is >= all-ones-1 (reader tombstone filter); all other ranges must be reported exactly",
            "DefaultLocation is judged on the raw entry and on its expression; the range the resolved iterator attaches to it ([0, 2^64-1) in the pinned tree) is secondary",
            "v<=4 StartLength with begin+length >= 2^64 (panic in debug builds, wrap in release builds) is executed and counted as known.* while KNOWN_STARTLENGTH_OVERFLOW is set (reported as a gimli defect)",
            "DIE offsets used for the expected entry references are taken from read::Dwarf's traversal of the emitted .debug_info (entries are tagged with DW_AT_name)",
        ],
        exhaustive_subspaces: &[
            "single-item and [BaseAddress, item] lists: 64 encodings x 3 low_pc states x {range,location} x 5 kinds x 10 value patterns (stream `table`, both profiles)",
        ],
        must_observe: &[
            "outcome.ok", "outcome.err", "outcome.unjudged",
            "cls.Empty", "cls.NeedsBase", "cls.ConflictsBase", "cls.DefaultBeforeV5", "cls.TooLarge", "cls.Collision", "cls.Overflow64",
            "err.InvalidRange", "err.MissingBaseAddress", "err.UnexpectedBaseAddress", "err.ValueTooLarge",
            "ver.2", "ver.3", "ver.4", "ver.5", "addr.1", "addr.2", "addr.4", "addr.8", "fmt.32", "fmt.64", "endian.le", "endian.be",
            "lowpc.absent", "lowpc.zero", "lowpc.nonzero",
            "kind.ranges.Base", "kind.ranges.OffsetPair", "kind.ranges.StartEnd", "kind.ranges.StartLength",
            "kind.locs.Base", "kind.locs.OffsetPair", "kind.locs.StartEnd", "kind.locs.StartLength", "kind.locs.Default",
            "compared.ranges.legacy", "compared.ranges.v5", "compared.locs.legacy", "compared.locs.v5",
            "dup.exact", "dup.near", "expr.entry_ref", "expr.cross_unit_ref", "expr.raw", "expr.empty", "expr.branch",
            "resolved.must", "resolved.optional_absent", "tiling.legacy", "tiling.v5", "header.v5.dwarf32", "header.v5.dwarf64",
            "units.multi",
        ],
        run,
    }
}

// ================================================================ case description

#[derive(Clone, Debug, PartialEq, Eq, Hash)]
enum XOp {
    Simple(u8),
    Addr(u64),
    Constu(u64),
    Consts(i64),
    Fbreg(i64),
    Breg(u16, i64),
    Reg(u16),
    Pick(u8),
    Deref,
    DerefSize(u8),
    PlusUconst(u64),
    Piece(u64),
    BitPiece(u64, u64),
    ImplicitValue(Vec<u8>),
    // references to entries of the same unit (index into the unit's DIE list)
    ConstType(usize, Vec<u8>),
    RegvalType(u16, usize),
    DerefType(u8, usize),
    Convert(Option<usize>),
    Reinterpret(Option<usize>),
    Call(usize),
    ParameterRef(usize),
    // references to entries of any unit (unit index, DIE index)
    CallRef(usize, usize),
    VariableValue(usize, usize),
    ImplicitPointer(usize, usize, i64),
    EntryValue(Vec<XOp>),
    /// DW_OP_skip / DW_OP_bra whose target is the end of the expression (top level only)
    SkipToEnd,
    BraToEnd,
}

#[derive(Clone, Debug, PartialEq, Eq, Hash)]
enum XSpec {
    Ops(Vec<XOp>),
    Raw(Vec<u8>),
}

#[derive(Clone, Copy, Debug, PartialEq, Eq, Hash)]
enum Kind {
    Base,
    OffsetPair,
    StartEnd,
    StartLength,
    Default,
}

impl Kind {
    fn name(self) -> &'static str {
        match self {
            Kind::Base => "Base",
            Kind::OffsetPair => "OffsetPair",
            Kind::StartEnd => "StartEnd",
            Kind::StartLength => "StartLength",
            Kind::Default => "Default",
        }
    }
}

/// One list item.  `a`,`b`: Base(a) / OffsetPair(a,b) / StartEnd(a,b) / StartLength(a, len=b).
/// `x` is the location expression (location lists, every kind but Base).
#[derive(Clone, Debug, PartialEq, Eq, Hash)]
struct Item {
    kind: Kind,
    a: u64,
    b: u64,
    x: Option<XSpec>,
}

type ListSpec = Vec<Item>;

#[derive(Clone, Copy, Debug, PartialEq, Eq)]
enum LowPc {
    Absent,
    Zero,
    NonZero(u64),
}

#[derive(Clone, Debug)]
struct DieSpec {
    parent: usize,
    tag: u16,
}

#[derive(Clone, Debug)]
struct AttrSpec {
    die: usize,
    name: u16,
    list: usize,
}

#[derive(Clone, Debug)]
struct UnitSpec {
    enc: Enc,
    low_pc: LowPc,
    low_pc_last: bool,
    decoys: u8,
    dies: Vec<DieSpec>,
    rlists: Vec<ListSpec>,
    llists: Vec<ListSpec>,
    rattrs: Vec<AttrSpec>,
    lattrs: Vec<AttrSpec>,
}

#[derive(Clone, Debug)]
struct CaseSpec {
    le: bool,
    units: Vec<UnitSpec>,
}

fn mask_of(enc: Enc) -> u64 {
    enc.addr_mask()
}

// ================================================================ expressions: build + encode

struct Ids {
    units: Vec<w::UnitId>,
    dies: Vec<Vec<w::UnitEntryId>>,
}

fn build_ops(e: &mut w::Expression, ops: &[XOp], u: usize, ids: &Ids) {
    let mut pending = vec![];
    let die = |uu: usize, k: usize| ids.dies[uu][k];
    for op in ops {
        match op {
            XOp::Simple(b) => e.op(gimli::DwOp(*b)),
            XOp::Addr(a) => e.op_addr(Address::Constant(*a)),
            XOp::Constu(v) => e.op_constu(*v),
            XOp::Consts(v) => e.op_consts(*v),
            XOp::Fbreg(v) => e.op_fbreg(*v),
            XOp::Breg(r, v) => e.op_breg(gimli::Register(*r), *v),
            XOp::Reg(r) => e.op_reg(gimli::Register(*r)),
            XOp::Pick(i) => e.op_pick(*i),
            XOp::Deref => e.op_deref(),
            XOp::DerefSize(n) => e.op_deref_size(*n),
            XOp::PlusUconst(v) => e.op_plus_uconst(*v),
            XOp::Piece(v) => e.op_piece(*v),
            XOp::BitPiece(s, o) => e.op_bit_piece(*s, *o),
            XOp::ImplicitValue(d) => e.op_implicit_value(d.clone().into_boxed_slice()),
            XOp::ConstType(k, d) => e.op_const_type(die(u, *k), d.clone().into_boxed_slice()),
            XOp::RegvalType(r, k) => e.op_regval_type(gimli::Register(*r), die(u, *k)),
            XOp::DerefType(n, k) => e.op_deref_type(*n, die(u, *k)),
            XOp::Convert(k) => e.op_convert(k.map(|k| die(u, k))),
            XOp::Reinterpret(k) => e.op_reinterpret(k.map(|k| die(u, k))),
            XOp::Call(k) => e.op_call(die(u, *k)),
            XOp::ParameterRef(k) => e.op_gnu_parameter_ref(die(u, *k)),
            XOp::CallRef(uu, k) => e.op_call_ref(w::DebugInfoRef::Entry(ids.units[*uu], die(*uu, *k))),
            XOp::VariableValue(uu, k) => e.op_variable_value(w::DebugInfoRef::Entry(ids.units[*uu], die(*uu, *k))),
            XOp::ImplicitPointer(uu, k, off) => e.op_implicit_pointer(w::DebugInfoRef::Entry(ids.units[*uu], die(*uu, *k)), *off),
            XOp::EntryValue(inner) => {
                let mut x = w::Expression::new();
                build_ops(&mut x, inner, u, ids);
                e.op_entry_value(x);
            }
            XOp::SkipToEnd => pending.push(e.op_skip()),
            XOp::BraToEnd => pending.push(e.op_bra()),
        }
    }
    let end = e.next_index();
    for p in pending {
        e.set_target(p, end);
    }
}

fn build_expr(x: &XSpec, u: usize, ids: &Ids) -> w::Expression {
    match x {
        XSpec::Raw(b) => w::Expression::raw(b.clone()),
        XSpec::Ops(ops) => {
            let mut e = w::Expression::new();
            build_ops(&mut e, ops, u, ids);
            e
        }
    }
}

/// Offsets found in the emitted `.debug_info`.
struct Offs {
    /// section offset of each unit header
    unit: Vec<usize>,
    /// per unit: DIE index -> offset within the unit
    die: Vec<BTreeMap<usize, usize>>,
}

/// Independent encoder (opcode numbers from the DWARF 5 standard / GNU extensions).
fn encode_ops(ops: &[XOp], enc: Enc, u: usize, offs: &Offs, top: bool) -> Option<Vec<u8>> {
    let v5 = enc.version >= 5;
    let mut a = Asm::new(enc.le);
    a.map = false;
    let mut branches: Vec<usize> = vec![];
    let die = |uu: usize, k: usize| -> Option<u64> { offs.die.get(uu)?.get(&k).map(|x| *x as u64) };
    let abs = |uu: usize, k: usize| -> Option<u64> { Some((*offs.unit.get(uu)? as u64).wrapping_add(die(uu, k)?)) };
    for op in ops {
        match op {
            XOp::Simple(b) => {
                a.u8(*b);
            }
            XOp::Addr(v) => {
                a.u8(0x03).uint(enc.addr as usize, *v);
            }
            XOp::Constu(v) => {
                if *v < 32 {
                    a.u8(0x30 + *v as u8);
                } else {
                    a.u8(0x10).uleb(*v);
                }
            }
            XOp::Consts(v) => {
                a.u8(0x11).sleb(*v);
            }
            XOp::Fbreg(v) => {
                a.u8(0x91).sleb(*v);
            }
            XOp::Breg(r, v) => {
                if *r < 32 {
                    a.u8(0x70 + *r as u8).sleb(*v);
                } else {
                    a.u8(0x92).uleb(*r as u64).sleb(*v);
                }
            }
            XOp::Reg(r) => {
                if *r < 32 {
                    a.u8(0x50 + *r as u8);
                } else {
                    a.u8(0x90).uleb(*r as u64);
                }
            }
            XOp::Pick(i) => match *i {
                0 => {
                    a.u8(0x12);
                }
                1 => {
                    a.u8(0x14);
                }
                n => {
                    a.u8(0x15).u8(n);
                }
            },
            XOp::Deref => {
                a.u8(0x06);
            }
            XOp::DerefSize(n) => {
                a.u8(0x94).u8(*n);
            }
            XOp::PlusUconst(v) => {
                a.u8(0x23).uleb(*v);
            }
            XOp::Piece(v) => {
                a.u8(0x93).uleb(*v);
            }
            XOp::BitPiece(s, o) => {
                a.u8(0x9d).uleb(*s).uleb(*o);
            }
            XOp::ImplicitValue(d) => {
                a.u8(0x9e).uleb(d.len() as u64).bytes(d);
            }
            XOp::ConstType(k, d) => {
                a.u8(if v5 { 0xa4 } else { 0xf4 }).uleb(die(u, *k)?).u8(d.len() as u8).bytes(d);
            }
            XOp::RegvalType(r, k) => {
                a.u8(if v5 { 0xa5 } else { 0xf5 }).uleb(*r as u64).uleb(die(u, *k)?);
            }
            XOp::DerefType(n, k) => {
                a.u8(if v5 { 0xa6 } else { 0xf6 }).u8(*n).uleb(die(u, *k)?);
            }
            XOp::Convert(k) => {
                a.u8(if v5 { 0xa8 } else { 0xf7 });
                match k {
                    Some(k) => a.uleb(die(u, *k)?),
                    None => a.u8(0),
                };
            }
            XOp::Reinterpret(k) => {
                a.u8(if v5 { 0xa9 } else { 0xf9 });
                match k {
                    Some(k) => a.uleb(die(u, *k)?),
                    None => a.u8(0),
                };
            }
            XOp::Call(k) => {
                a.u8(0x99).u32(die(u, *k)? as u32);
            }
            XOp::ParameterRef(k) => {
                a.u8(0xfa).u32(die(u, *k)? as u32);
            }
            XOp::CallRef(uu, k) => {
                a.u8(0x9a).word(enc.fmt64, abs(*uu, *k)?);
            }
            XOp::VariableValue(uu, k) => {
                a.u8(0xfd).word(enc.fmt64, abs(*uu, *k)?);
            }
            XOp::ImplicitPointer(uu, k, off) => {
                a.u8(if v5 { 0xa0 } else { 0xf2 });
                let size = if enc.version == 2 { enc.addr as usize } else { enc.word() as usize };
                a.uint(size, abs(*uu, *k)?).sleb(*off);
            }
            XOp::EntryValue(inner) => {
                let body = encode_ops(inner, enc, u, offs, false)?;
                a.u8(if v5 { 0xa3 } else { 0xf3 }).uleb(body.len() as u64).bytes(&body);
            }
            XOp::SkipToEnd | XOp::BraToEnd => {
                if !top {
                    return None;
                }
                branches.push(a.len());
                a.u8(if matches!(op, XOp::SkipToEnd) { 0x2f } else { 0x28 }).u16(0);
            }
        }
    }
    let total = a.len() as i64;
    for b in branches {
        let disp = total - (b as i64 + 3);
        a.patch_uint(b + 1, 2, disp as i16 as u16 as u64);
    }
    Some(a.buf)
}

fn encode_expr(x: &XSpec, enc: Enc, u: usize, offs: &Offs) -> Option<Vec<u8>> {
    match x {
        XSpec::Raw(b) => Some(b.clone()),
        XSpec::Ops(ops) => encode_ops(ops, enc, u, offs, true),
    }
}

// ================================================================ model: representability

#[derive(Clone, Copy, Debug, PartialEq, Eq)]
enum Cls {
    Ok,
    Empty,
    NeedsBase,
    ConflictsBase,
    DefaultBeforeV5,
    TooLarge,
    /// legacy pair whose first word is all-ones: reads back as a base address selection
    Collision,
    /// v<=4 StartLength with begin + length >= 2^64
    Overflow64,
}

impl Cls {
    fn name(self) -> &'static str {
        match self {
            Cls::Ok => "Ok",
            Cls::Empty => "Empty",
            Cls::NeedsBase => "NeedsBase",
            Cls::ConflictsBase => "ConflictsBase",
            Cls::DefaultBeforeV5 => "DefaultBeforeV5",
            Cls::TooLarge => "TooLarge",
            Cls::Collision => "Collision",
            Cls::Overflow64 => "Overflow64",
        }
    }
    fn is_err(self) -> bool {
        matches!(self, Cls::Empty | Cls::NeedsBase | Cls::ConflictsBase | Cls::DefaultBeforeV5 | Cls::TooLarge)
    }
}

fn unit_has_base(lp: LowPc) -> bool {
    matches!(lp, LowPc::NonZero(v) if v != 0)
}

fn low_pc_value(lp: LowPc) -> u64 {
    match lp {
        LowPc::NonZero(v) => v,
        _ => 0,
    }
}

/// Class of one item given whether a base address is in effect before it.
fn classify_item(enc: Enc, have_base: bool, it: &Item) -> Cls {
    let m = mask_of(enc);
    if enc.version >= 5 {
        let too = match it.kind {
            Kind::Base => it.a > m,
            Kind::OffsetPair => false,
            Kind::StartEnd => it.a > m || it.b > m,
            Kind::StartLength => it.a > m,
            Kind::Default => false,
        };
        return if too { Cls::TooLarge } else { Cls::Ok };
    }
    match it.kind {
        Kind::Base => {
            if it.a > m {
                Cls::TooLarge
            } else {
                Cls::Ok
            }
        }
        Kind::OffsetPair => {
            if it.a == it.b {
                Cls::Empty
            } else if !have_base {
                Cls::NeedsBase
            } else if it.a > m || it.b > m {
                Cls::TooLarge
            } else if it.a == m {
                Cls::Collision
            } else {
                Cls::Ok
            }
        }
        Kind::StartEnd => {
            if it.a == it.b {
                Cls::Empty
            } else if have_base {
                Cls::ConflictsBase
            } else if it.a > m || it.b > m {
                Cls::TooLarge
            } else if it.a == m {
                Cls::Collision
            } else {
                Cls::Ok
            }
        }
        Kind::StartLength => match it.a.checked_add(it.b) {
            None => Cls::Overflow64,
            Some(end) => {
                if it.b == 0 {
                    Cls::Empty
                } else if have_base {
                    Cls::ConflictsBase
                } else if it.a > m || end > m {
                    Cls::TooLarge
                } else {
                    Cls::Ok
                }
            }
        },
        Kind::Default => Cls::DefaultBeforeV5,
    }
}

fn classify_list(enc: Enc, lp: LowPc, list: &ListSpec) -> Vec<Cls> {
    let mut have = unit_has_base(lp);
    let mut out = Vec::with_capacity(list.len());
    for it in list {
        out.push(classify_item(enc, have, it));
        if it.kind == Kind::Base {
            have = true;
        }
    }
    out
}

fn list_clean(cls: &[Cls]) -> bool {
    cls.iter().all(|c| *c == Cls::Ok)
}

#[derive(Clone, Copy, Debug, PartialEq)]
enum Expect {
    MustOk,
    MustErr(Cls),
    Unjudged,
}

struct Verdict {
    expect: Expect,
    has_overflow: bool,
    has_collision: bool,
    /// the only error class of the case when exactly one item is unrepresentable
    single_err: Option<Cls>,
}

fn model_verdict(spec: &CaseSpec) -> Verdict {
    let mut first_err = None;
    let mut n_err = 0;
    let mut has_overflow = false;
    let mut has_collision = false;
    for us in &spec.units {
        // distinct lists only: the writer sees each value once
        for (lists, _) in [(&us.rlists, false), (&us.llists, true)] {
            for (i, l) in lists.iter().enumerate() {
                if lists[..i].contains(l) {
                    continue;
                }
                for c in classify_list(us.enc, us.low_pc, l) {
                    // with the known defect fixed, a range ending beyond 2^64 must be rejected
                    if c.is_err() || (c == Cls::Overflow64 && !KNOWN_STARTLENGTH_OVERFLOW) {
                        n_err += 1;
                        if first_err.is_none() {
                            first_err = Some(c);
                        }
                    }
                    has_overflow |= c == Cls::Overflow64 && KNOWN_STARTLENGTH_OVERFLOW;
                    has_collision |= c == Cls::Collision;
                }
            }
        }
    }
    let expect = if has_overflow {
        // the overflow is evaluated before any check of that item; an earlier error may or
        // may not pre-empt it
        Expect::Unjudged
    } else if let Some(c) = first_err {
        Expect::MustErr(c)
    } else if has_collision {
        Expect::Unjudged
    } else {
        Expect::MustOk
    };
    Verdict { expect, has_overflow, has_collision, single_err: if n_err == 1 { first_err } else { None } }
}

// ================================================================ model: encoding-level items and resolution

/// Normalised list entry, as the bytes of the encoding say it (shared by the model, the
/// harness decoder and the rendering of gimli's raw iterator).
#[derive(Clone, Debug, PartialEq, Eq)]
enum DItem {
    Base(u64),
    /// legacy address-or-offset pair
    Pair(u64, u64, Option<Vec<u8>>),
    OffsetPair(u64, u64, Option<Vec<u8>>),
    StartEnd(u64, u64, Option<Vec<u8>>),
    StartLength(u64, u64, Option<Vec<u8>>),
    Default(Vec<u8>),
    Other(String),
}

/// What the encoding of `list` must contain (clean lists only).
fn model_items(enc: Enc, list: &ListSpec, u: usize, offs: &Offs) -> Option<Vec<DItem>> {
    let mut out = vec![];
    for it in list {
        let data = match &it.x {
            Some(x) => Some(encode_expr(x, enc, u, offs)?),
            None => None,
        };
        let d = if enc.version >= 5 {
            match it.kind {
                Kind::Base => DItem::Base(it.a),
                Kind::OffsetPair => DItem::OffsetPair(it.a, it.b, data),
                Kind::StartEnd => DItem::StartEnd(it.a, it.b, data),
                Kind::StartLength => DItem::StartLength(it.a, it.b, data),
                Kind::Default => DItem::Default(data.unwrap_or_default()),
            }
        } else {
            match it.kind {
                Kind::Base => DItem::Base(it.a),
                Kind::OffsetPair | Kind::StartEnd => DItem::Pair(it.a, it.b, data),
                Kind::StartLength => DItem::Pair(it.a, it.a.wrapping_add(it.b), data),
                Kind::Default => DItem::Other("default location before v5".into()),
            }
        };
        out.push(d);
    }
    Some(out)
}

#[derive(Clone, Debug)]
struct RExp {
    begin: u64,
    end: u64,
    must: bool,
    default: bool,
    data: Option<Vec<u8>>,
}

/// The ranges a list denotes through the unit's base address (mathematics in u128, then
/// wrapped to the address size; `must` is false for the reader's filter class).
fn resolve(enc: Enc, lp: LowPc, list: &ListSpec, items: &[DItem]) -> Vec<RExp> {
    let m = mask_of(enc) as u128;
    let tomb = m - 1;
    let mut base = low_pc_value(lp) as u128;
    let mut out = vec![];
    for (it, d) in list.iter().zip(items.iter()) {
        let data = match d {
            DItem::Pair(_, _, x) | DItem::OffsetPair(_, _, x) | DItem::StartEnd(_, _, x) | DItem::StartLength(_, _, x) => x.clone(),
            DItem::Default(x) => Some(x.clone()),
            _ => None,
        };
        let (b, e, pair) = match it.kind {
            Kind::Base => {
                base = it.a as u128;
                continue;
            }
            Kind::Default => {
                out.push(RExp { begin: 0, end: u64::MAX, must: true, default: true, data });
                continue;
            }
            Kind::OffsetPair => (base + it.a as u128, base + it.b as u128, true),
            Kind::StartEnd => (it.a as u128, it.b as u128, false),
            Kind::StartLength => (it.a as u128, it.a as u128 + it.b as u128, false),
        };
        let wrapped = b > m || e > m;
        let (bw, ew) = (b & m, e & m);
        let must = !wrapped && bw < tomb && bw < ew && !(pair && base >= tomb);
        out.push(RExp { begin: bw as u64, end: ew as u64, must, default: false, data });
    }
    out
}

// ================================================================ independent decoders

fn rd_uint(b: &[u8], pos: &mut usize, le: bool, n: usize) -> Result<u64, String> {
    let end = pos.checked_add(n).ok_or("offset overflow")?;
    if end > b.len() {
        return Err(format!("truncated at {:#x} (need {} bytes)", *pos, n));
    }
    let v = get_uint(&b[*pos..end], le, n);
    *pos = end;
    Ok(v)
}

fn rd_uleb(b: &[u8], pos: &mut usize) -> Result<u64, String> {
    let mut v: u64 = 0;
    for i in 0..10 {
        let Some(&x) = b.get(*pos) else { return Err(format!("truncated uleb at {:#x}", *pos)) };
        *pos += 1;
        let low = (x & 0x7f) as u64;
        if i == 9 && low > 1 {
            return Err("uleb overflow".into());
        }
        v |= low << (7 * i);
        if x & 0x80 == 0 {
            return Ok(v);
        }
    }
    Err("uleb too long".into())
}

fn rd_bytes(b: &[u8], pos: &mut usize, n: u64) -> Result<Vec<u8>, String> {
    let n = usize::try_from(n).map_err(|_| "length overflow")?;
    let end = pos.checked_add(n).ok_or("offset overflow")?;
    if end > b.len() {
        return Err(format!("truncated block at {:#x} (need {} bytes)", *pos, n));
    }
    let v = b[*pos..end].to_vec();
    *pos = end;
    Ok(v)
}

/// Legacy `.debug_ranges` / `.debug_loc` list at `off`: (items, end offset).
fn decode_legacy(b: &[u8], off: usize, le: bool, addr: u8, loc: bool) -> Result<(Vec<DItem>, usize), String> {
    let n = addr as usize;
    let m = if addr >= 8 { u64::MAX } else { (1u64 << (8 * addr as u32)) - 1 };
    let mut pos = off;
    let mut out = vec![];
    loop {
        if out.len() > 100_000 {
            return Err("list too long".into());
        }
        let a = rd_uint(b, &mut pos, le, n)?;
        let e = rd_uint(b, &mut pos, le, n)?;
        if a == 0 && e == 0 {
            return Ok((out, pos));
        }
        if a == m {
            out.push(DItem::Base(e));
            continue;
        }
        let data = if loc {
            let len = rd_uint(b, &mut pos, le, 2)?;
            Some(rd_bytes(b, &mut pos, len)?)
        } else {
            None
        };
        out.push(DItem::Pair(a, e, data));
    }
}

/// DWARF 5 `.debug_rnglists` / `.debug_loclists` list at `off`: (items, end offset).
fn decode_v5(b: &[u8], off: usize, le: bool, addr: u8, loc: bool) -> Result<(Vec<DItem>, usize), String> {
    let n = addr as usize;
    let mut pos = off;
    let mut out = vec![];
    let data = |pos: &mut usize| -> Result<Option<Vec<u8>>, String> {
        if loc {
            let len = rd_uleb(b, pos)?;
            Ok(Some(rd_bytes(b, pos, len)?))
        } else {
            Ok(None)
        }
    };
    loop {
        if out.len() > 100_000 {
            return Err("list too long".into());
        }
        let k = rd_uint(b, &mut pos, le, 1)? as u8;
        // DW_RLE_*: 0 end, 4 offset_pair, 5 base_address, 6 start_end, 7 start_length
        // DW_LLE_*: 0 end, 4 offset_pair, 5 default_location, 6 base_address, 7 start_end, 8 start_length
        let k = if loc { k } else if k >= 5 { k + 1 } else { k };
        match k {
            0 => return Ok((out, pos)),
            4 => {
                let a = rd_uleb(b, &mut pos)?;
                let e = rd_uleb(b, &mut pos)?;
                let d = data(&mut pos)?;
                out.push(DItem::OffsetPair(a, e, d));
            }
            5 => {
                let d = data(&mut pos)?;
                out.push(DItem::Default(d.unwrap_or_default()));
            }
            6 => out.push(DItem::Base(rd_uint(b, &mut pos, le, n)?)),
            7 => {
                let a = rd_uint(b, &mut pos, le, n)?;
                let e = rd_uint(b, &mut pos, le, n)?;
                let d = data(&mut pos)?;
                out.push(DItem::StartEnd(a, e, d));
            }
            8 => {
                let a = rd_uint(b, &mut pos, le, n)?;
                let l = rd_uleb(b, &mut pos)?;
                let d = data(&mut pos)?;
                out.push(DItem::StartLength(a, l, d));
            }
            other => return Err(format!("unexpected entry kind {:#x} at {:#x}", other, pos - 1)),
        }
    }
}

#[derive(Debug, Clone)]
struct V5Header {
    fmt64: bool,
    /// offset of the first byte after the table
    end: usize,
    version: u16,
    addr: u8,
    seg: u8,
    count: u32,
    /// offset of the first list
    body: usize,
}

fn decode_v5_header(b: &[u8], off: usize, le: bool) -> Result<V5Header, String> {
    let mut pos = off;
    let mut len = rd_uint(b, &mut pos, le, 4)?;
    let mut fmt64 = false;
    if len == 0xffff_ffff {
        fmt64 = true;
        len = rd_uint(b, &mut pos, le, 8)?;
    } else if len >= 0xffff_fff0 {
        return Err(format!("reserved initial length {len:#x}"));
    }
    let end = usize::try_from(len).ok().and_then(|l| pos.checked_add(l)).ok_or("length overflow")?;
    if end > b.len() {
        return Err(format!("table length {len:#x} at {off:#x} exceeds the section ({:#x})", b.len()));
    }
    let version = rd_uint(b, &mut pos, le, 2)? as u16;
    let addr = rd_uint(b, &mut pos, le, 1)? as u8;
    let seg = rd_uint(b, &mut pos, le, 1)? as u8;
    let count = rd_uint(b, &mut pos, le, 4)? as u32;
    let skip = (count as usize).checked_mul(if fmt64 { 8 } else { 4 }).ok_or("count overflow")?;
    let body = pos.checked_add(skip).ok_or("count overflow")?;
    if body > end {
        return Err("offset array exceeds the table".into());
    }
    Ok(V5Header { fmt64, end, version, addr, seg, count, body })
}

// ================================================================ gimli: write

#[derive(Default, Clone)]
struct Secs {
    info: Vec<u8>,
    abbrev: Vec<u8>,
    str_: Vec<u8>,
    line: Vec<u8>,
    line_str: Vec<u8>,
    ranges: Vec<u8>,
    rnglists: Vec<u8>,
    loc: Vec<u8>,
    loclists: Vec<u8>,
}

impl Secs {
    fn get(&self, id: gimli::SectionId) -> &[u8] {
        use gimli::SectionId as S;
        match id {
            S::DebugInfo => &self.info,
            S::DebugAbbrev => &self.abbrev,
            S::DebugStr => &self.str_,
            S::DebugLine => &self.line,
            S::DebugLineStr => &self.line_str,
            S::DebugRanges => &self.ranges,
            S::DebugRngLists => &self.rnglists,
            S::DebugLoc => &self.loc,
            S::DebugLocLists => &self.loclists,
            _ => &[],
        }
    }
}

struct WOut {
    res: Result<(), String>,
    secs: Secs,
    /// per unit, per slot: index of the first slot with an equal id
    rcanon: Vec<Vec<usize>>,
    lcanon: Vec<Vec<usize>>,
    /// `table.get(id)` returned a list equal to the one added
    get_ok: bool,
}

fn addr(v: u64) -> Address {
    Address::Constant(v)
}

fn build_range_list(l: &ListSpec) -> w::RangeList {
    w::RangeList(
        l.iter()
            .map(|it| match it.kind {
                Kind::Base => w::Range::BaseAddress { address: addr(it.a) },
                Kind::OffsetPair => w::Range::OffsetPair { begin: it.a, end: it.b },
                Kind::StartEnd => w::Range::StartEnd { begin: addr(it.a), end: addr(it.b) },
                // Default does not exist for ranges; the generator never produces it
                Kind::StartLength | Kind::Default => w::Range::StartLength { begin: addr(it.a), length: it.b },
            })
            .collect(),
    )
}

fn build_loc_list(l: &ListSpec, u: usize, ids: &Ids) -> w::LocationList {
    let empty = XSpec::Ops(vec![]);
    w::LocationList(
        l.iter()
            .map(|it| {
                let data = build_expr(it.x.as_ref().unwrap_or(&empty), u, ids);
                match it.kind {
                    Kind::Base => w::Location::BaseAddress { address: addr(it.a) },
                    Kind::OffsetPair => w::Location::OffsetPair { begin: it.a, end: it.b, data },
                    Kind::StartEnd => w::Location::StartEnd { begin: addr(it.a), end: addr(it.b), data },
                    Kind::StartLength => w::Location::StartLength { begin: addr(it.a), length: it.b, data },
                    Kind::Default => w::Location::DefaultLocation { data },
                }
            })
            .collect(),
    )
}

fn canon<T: PartialEq>(xs: &[T]) -> Vec<usize> {
    (0..xs.len()).map(|i| (0..=i).find(|&j| xs[j] == xs[i]).unwrap_or(i)).collect()
}

fn build_and_write(spec: &CaseSpec) -> WOut {
    let mut dwarf = w::Dwarf::new();
    let mut ids = Ids { units: vec![], dies: vec![] };
    // pass 1: units and entries
    for us in &spec.units {
        let mut unit = w::Unit::new(us.enc.encoding(), w::LineProgram::none());
        let mut dies = vec![unit.root()];
        for d in us.dies.iter().skip(1) {
            let parent = dies[d.parent.min(dies.len() - 1)];
            dies.push(unit.add(parent, gimli::DwTag(d.tag)));
        }
        let m = mask_of(us.enc);
        let set_low_pc = |unit: &mut w::Unit| {
            let root = unit.root();
            match us.low_pc {
                LowPc::Absent => {}
                LowPc::Zero => unit.get_mut(root).set(dw::DW_AT_low_pc, w::AttributeValue::Address(addr(0))),
                LowPc::NonZero(v) => unit.get_mut(root).set(dw::DW_AT_low_pc, w::AttributeValue::Address(addr(v))),
            }
        };
        if !us.low_pc_last {
            set_low_pc(&mut unit);
        }
        for (k, id) in dies.iter().enumerate() {
            unit.get_mut(*id).set(dw::DW_AT_name, w::AttributeValue::String(format!("d{k}").into_bytes()));
        }
        // decoys: attributes that must not influence the base address
        let root = unit.root();
        if us.decoys & 1 != 0 {
            unit.get_mut(root).set(dw::DW_AT_entry_pc, w::AttributeValue::Address(addr(0x33 & m)));
        }
        if us.decoys & 2 != 0 {
            unit.get_mut(root).set(dw::DW_AT_high_pc, w::AttributeValue::Udata(0x100));
        }
        if us.decoys & 4 != 0 && dies.len() > 1 {
            let v = if unit_has_base(us.low_pc) { 0 } else { 0x44 & m };
            unit.get_mut(dies[1]).set(dw::DW_AT_low_pc, w::AttributeValue::Address(addr(v)));
        }
        if us.low_pc_last {
            set_low_pc(&mut unit);
        }
        ids.units.push(dwarf.units.add(unit));
        ids.dies.push(dies);
    }
    // pass 2: lists and the attributes referring to them
    let mut rcanon = vec![];
    let mut lcanon = vec![];
    let mut get_ok = true;
    for (u, us) in spec.units.iter().enumerate() {
        let unit = dwarf.units.get_mut(ids.units[u]);
        let mut rids = vec![];
        for l in &us.rlists {
            let built = build_range_list(l);
            let id = unit.ranges.add(built.clone());
            get_ok &= *unit.ranges.get(id) == built;
            rids.push(id);
        }
        let mut lids = vec![];
        for l in &us.llists {
            let built = build_loc_list(l, u, &ids);
            let id = unit.locations.add(built.clone());
            get_ok &= *unit.locations.get(id) == built;
            lids.push(id);
        }
        for a in &us.rattrs {
            let die = ids.dies[u][a.die];
            unit.get_mut(die).set(gimli::DwAt(a.name), w::AttributeValue::RangeListRef(rids[a.list]));
        }
        for a in &us.lattrs {
            let die = ids.dies[u][a.die];
            unit.get_mut(die).set(gimli::DwAt(a.name), w::AttributeValue::LocationListRef(lids[a.list]));
        }
        rcanon.push(canon(&rids));
        lcanon.push(canon(&lids));
    }
    let endian = if spec.le { gimli::RunTimeEndian::Little } else { gimli::RunTimeEndian::Big };
    let mut sections = w::Sections::new(w::EndianVec::new(endian));
    let res = dwarf.write(&mut sections).map_err(|e| format!("{e:?}"));
    let secs = Secs {
        info: sections.debug_info.slice().to_vec(),
        abbrev: sections.debug_abbrev.slice().to_vec(),
        str_: sections.debug_str.slice().to_vec(),
        line: sections.debug_line.slice().to_vec(),
        line_str: sections.debug_line_str.slice().to_vec(),
        ranges: sections.debug_ranges.slice().to_vec(),
        rnglists: sections.debug_rnglists.slice().to_vec(),
        loc: sections.debug_loc.slice().to_vec(),
        loclists: sections.debug_loclists.slice().to_vec(),
    };
    WOut { res, secs, rcanon, lcanon, get_ok }
}

// ================================================================ gimli: read back

#[derive(Debug, Clone)]
struct RRes {
    begin: u64,
    end: u64,
    data: Option<Vec<u8>>,
}

#[derive(Debug, Clone)]
struct RAttr {
    die: usize,
    name: u16,
    offset: usize,
    raw: Result<Vec<DItem>, String>,
    res: Result<Vec<RRes>, String>,
}

#[derive(Debug, Clone, Default)]
struct RUnit {
    version: u16,
    addr: u8,
    fmt64: bool,
    low_pc: u64,
    unit_off: usize,
    dies: BTreeMap<usize, usize>,
    rattrs: Vec<RAttr>,
    lattrs: Vec<RAttr>,
}

type Slice<'a> = gimli::EndianSlice<'a, gimli::RunTimeEndian>;

const ITER_LIMIT: usize = 100_000;

fn bytes_of(e: &gimli::Expression<Slice<'_>>) -> Vec<u8> {
    e.0.slice().to_vec()
}

fn raw_range_item(e: gimli::RawRngListEntry<usize>) -> DItem {
    use gimli::RawRngListEntry as R;
    match e {
        R::AddressOrOffsetPair { begin, end } => DItem::Pair(begin, end, None),
        R::BaseAddress { addr } => DItem::Base(addr),
        R::OffsetPair { begin, end } => DItem::OffsetPair(begin, end, None),
        R::StartEnd { begin, end } => DItem::StartEnd(begin, end, None),
        R::StartLength { begin, length } => DItem::StartLength(begin, length, None),
        other => DItem::Other(format!("{other:?}")),
    }
}

fn raw_loc_item(e: gimli::RawLocListEntry<Slice<'_>>) -> DItem {
    use gimli::RawLocListEntry as R;
    match e {
        R::AddressOrOffsetPair { begin, end, data } => DItem::Pair(begin, end, Some(bytes_of(&data))),
        R::BaseAddress { addr } => DItem::Base(addr),
        R::OffsetPair { begin, end, data } => DItem::OffsetPair(begin, end, Some(bytes_of(&data))),
        R::StartEnd { begin, end, data } => DItem::StartEnd(begin, end, Some(bytes_of(&data))),
        R::StartLength { begin, length, data } => DItem::StartLength(begin, length, Some(bytes_of(&data))),
        R::DefaultLocation { data } => DItem::Default(bytes_of(&data)),
        other => DItem::Other(format!("{other:?}")),
    }
}

fn read_back(secs: &Secs, le: bool) -> Result<Vec<RUnit>, String> {
    let endian = if le { gimli::RunTimeEndian::Little } else { gimli::RunTimeEndian::Big };
    let dwarf: gimli::Dwarf<Slice<'_>> =
        gimli::Dwarf::load(|id| -> Result<Slice<'_>, gimli::Error> { Ok(gimli::EndianSlice::new(secs.get(id), endian)) })
            .map_err(|e| format!("load: {e:?}"))?;
    let mut out = vec![];
    let mut headers = dwarf.units();
    loop {
        if out.len() > 64 {
            return Err("too many units".into());
        }
        let header = match headers.next() {
            Ok(Some(h)) => h,
            Ok(None) => break,
            Err(e) => return Err(format!("units().next: {e:?}")),
        };
        let unit = dwarf.unit(header).map_err(|e| format!("Dwarf::unit: {e:?}"))?;
        let enc = unit.encoding();
        let mut ru = RUnit {
            version: enc.version,
            addr: enc.address_size,
            fmt64: enc.format == gimli::Format::Dwarf64,
            low_pc: unit.low_pc,
            unit_off: unit.header.offset().0,
            ..Default::default()
        };
        let mut cursor = unit.entries();
        let mut n = 0;
        loop {
            n += 1;
            if n > ITER_LIMIT {
                return Err("entries do not end".into());
            }
            let entry = match cursor.next_dfs() {
                Ok(Some(e)) => e,
                Ok(None) => break,
                Err(e) => return Err(format!("next_dfs: {e:?}")),
            };
            let off = entry.offset().0;
            // marker
            let mut k = None;
            for a in entry.attrs() {
                if a.name() == dw::DW_AT_name {
                    if let gimli::AttributeValue::String(s) = a.value() {
                        let s = s.slice();
                        if s.len() >= 2 && s[0] == b'd' {
                            k = std::str::from_utf8(&s[1..]).ok().and_then(|t| t.parse::<usize>().ok());
                        }
                    }
                }
            }
            let Some(k) = k else { return Err(format!("entry at {off:#x} has no marker name")) };
            if ru.dies.insert(k, off).is_some() {
                return Err(format!("marker d{k} seen twice"));
            }
            for a in entry.attrs() {
                let name = a.name();
                if name == dw::DW_AT_ranges || name == dw::DW_AT_start_scope {
                    let offset = dwarf.attr_ranges_offset(&unit, a.value()).map_err(|e| format!("attr_ranges_offset: {e:?}"))?;
                    let Some(offset) = offset else {
                        return Err(format!("attr_ranges_offset: None for {:?} (form {:?})", a.value(), a.form()));
                    };
                    // raw entries
                    let raw = (|| -> Result<Vec<DItem>, String> {
                        let mut it = dwarf.raw_ranges(&unit, offset).map_err(|e| format!("raw_ranges: {e:?}"))?;
                        let mut v = vec![];
                        while let Some(e) = it.next().map_err(|e| format!("raw next: {e:?}"))? {
                            v.push(raw_range_item(e));
                            if v.len() > ITER_LIMIT {
                                return Err("raw iterator does not end".into());
                            }
                        }
                        Ok(v)
                    })();
                    let res = (|| -> Result<Vec<RRes>, String> {
                        let it = dwarf.attr_ranges(&unit, a.value()).map_err(|e| format!("attr_ranges: {e:?}"))?;
                        let Some(mut it) = it else { return Err("attr_ranges: None".into()) };
                        let mut v = vec![];
                        while let Some(r) = it.next().map_err(|e| format!("ranges next: {e:?}"))? {
                            v.push(RRes { begin: r.begin, end: r.end, data: None });
                            if v.len() > ITER_LIMIT {
                                return Err("range iterator does not end".into());
                            }
                        }
                        Ok(v)
                    })();
                    ru.rattrs.push(RAttr { die: k, name: name.0, offset: offset.0, raw, res });
                } else if name == dw::DW_AT_location || name == dw::DW_AT_frame_base {
                    let offset = dwarf.attr_locations_offset(&unit, a.value()).map_err(|e| format!("attr_locations_offset: {e:?}"))?;
                    let Some(offset) = offset else {
                        return Err(format!("attr_locations_offset: None for {:?} (form {:?})", a.value(), a.form()));
                    };
                    let raw = (|| -> Result<Vec<DItem>, String> {
                        let mut it = dwarf.raw_locations(&unit, offset).map_err(|e| format!("raw_locations: {e:?}"))?;
                        let mut v = vec![];
                        while let Some(e) = it.next().map_err(|e| format!("raw next: {e:?}"))? {
                            v.push(raw_loc_item(e));
                            if v.len() > ITER_LIMIT {
                                return Err("raw iterator does not end".into());
                            }
                        }
                        Ok(v)
                    })();
                    let res = (|| -> Result<Vec<RRes>, String> {
                        let it = dwarf.attr_locations(&unit, a.value()).map_err(|e| format!("attr_locations: {e:?}"))?;
                        let Some(mut it) = it else { return Err("attr_locations: None".into()) };
                        let mut v = vec![];
                        while let Some(r) = it.next().map_err(|e| format!("locations next: {e:?}"))? {
                            v.push(RRes { begin: r.range.begin, end: r.range.end, data: Some(bytes_of(&r.data)) });
                            if v.len() > ITER_LIMIT {
                                return Err("location iterator does not end".into());
                            }
                        }
                        Ok(v)
                    })();
                    ru.lattrs.push(RAttr { die: k, name: name.0, offset: offset.0, raw, res });
                }
            }
        }
        out.push(ru);
    }
    Ok(out)
}

// ================================================================ comparison

fn match_resolved(exp: &[RExp], got: &[RRes]) -> Result<(u64, u64, u64, bool), String> {
    // `got` must equal the model list with some subset of the optional (`must == false`)
    // entries removed.  A greedy left-to-right match is not enough: an optional entry may be
    // identical to a mandatory one that follows it, so the match is decided by dynamic
    // programming over (model index, read-back index).
    let (n, m) = (exp.len(), got.len());
    let same = |e: &RExp, g: &RRes| g.data == e.data && (e.default || (g.begin == e.begin && g.end == e.end));
    let mut ok = vec![vec![false; m + 1]; n + 1];
    ok[n][m] = true;
    for i in (0..n).rev() {
        for j in (0..=m).rev() {
            let take = j < m && same(&exp[i], &got[j]) && ok[i + 1][j + 1];
            let skip = !exp[i].must && ok[i + 1][j];
            ok[i][j] = take || skip;
        }
    }
    let (mut must, mut absent, mut present, mut default_range_differs) = (0, 0, 0, false);
    let mut j = 0;
    for (i, e) in exp.iter().enumerate() {
        let g = got.get(j);
        let take = g.map_or(false, |g| same(e, g)) && (!ok[0][0] || ok[i + 1][j + 1]);
        if take {
            if e.default && g.map_or(false, |g| g.begin != e.begin || g.end != e.end) {
                default_range_differs = true;
            }
            j += 1;
            if e.must {
                must += 1;
            } else {
                present += 1;
            }
        } else if e.must {
            return Err(format!("model entry {i} = {e:?} expected at read-back position {j}, found {g:?}"));
        } else {
            absent += 1;
        }
    }
    if j != got.len() {
        return Err(format!("read-back has {} entries, only {} are explained by the model; first extra: {:?}", got.len(), j, got.get(j)));
    }
    Ok((must, absent, present, default_range_differs))
}

fn xspec_obs(ctx: &mut Ctx, x: &XSpec) {
    match x {
        XSpec::Raw(_) => ctx.obs("expr.raw"),
        XSpec::Ops(ops) => {
            if ops.is_empty() {
                ctx.obs("expr.empty");
            }
            let mut stack: Vec<&XOp> = ops.iter().collect();
            while let Some(op) = stack.pop() {
                match op {
                    XOp::ConstType(..) | XOp::RegvalType(..) | XOp::DerefType(..) | XOp::Convert(Some(_)) | XOp::Reinterpret(Some(_)) | XOp::Call(_) | XOp::ParameterRef(_) => ctx.obs("expr.entry_ref"),
                    XOp::CallRef(..) | XOp::VariableValue(..) | XOp::ImplicitPointer(..) => ctx.obs("expr.cross_unit_ref"),
                    XOp::SkipToEnd | XOp::BraToEnd => ctx.obs("expr.branch"),
                    XOp::EntryValue(inner) => {
                        ctx.obs("expr.entry_value");
                        stack.extend(inner.iter());
                    }
                    _ => {}
                }
            }
        }
    }
}

/// Lists of the legacy sections must tile the section exactly.
fn tile_legacy(ctx: &mut Ctx, name: &str, sec: &[u8], mut iv: Vec<(usize, usize, usize)>, expected: usize, input: &dyn Fn() -> serde_json::Value) {
    iv.sort();
    iv.dedup();
    let sig = format!("tiling.{name}");
    if iv.len() != expected {
        ctx.fail(&sig, &format!("{name}: {} distinct (offset, unit) lists are referenced, the model has {} distinct lists", iv.len(), expected), input);
        return;
    }
    let mut pos = 0;
    for (start, end, u) in &iv {
        if *start != pos {
            ctx.fail(&sig, &format!("{name}: list of unit {u} starts at {start:#x}, previous list ended at {pos:#x} (gap = extra copy or garbage, overlap = shared bytes)"), input);
            return;
        }
        pos = *end;
    }
    if pos != sec.len() {
        ctx.fail(&sig, &format!("{name}: lists end at {pos:#x}, section length is {:#x}", sec.len()), input);
        return;
    }
    ctx.obs("tiling.legacy");
}

/// Tables of the v5 sections: header per unit, lists tile each table body exactly.
/// `iv`: (start, end, unit index, address size, unit is Dwarf64).
fn tile_v5(ctx: &mut Ctx, name: &str, sec: &[u8], le: bool, mut iv: Vec<(usize, usize, usize, u8, bool)>, tables: usize, expected: usize, input: &dyn Fn() -> serde_json::Value) {
    iv.sort();
    iv.dedup();
    let sig = format!("tiling.{name}");
    if iv.len() != expected {
        ctx.fail(&sig, &format!("{name}: {} distinct (offset, unit) lists are referenced, the model has {} distinct lists", iv.len(), expected), input);
        return;
    }
    let mut pos = 0;
    let mut i = 0;
    let mut seen_tables = 0;
    while pos < sec.len() {
        let h = match decode_v5_header(sec, pos, le) {
            Ok(h) => h,
            Err(e) => {
                ctx.fail(&format!("header.{name}"), &format!("{name}: table header at {pos:#x}: {e}"), input);
                return;
            }
        };
        seen_tables += 1;
        let Some(first) = iv.get(i) else {
            ctx.fail(&sig, &format!("{name}: table at {pos:#x} holds no referenced list"), input);
            return;
        };
        if h.version != 5 || h.seg != 0 || h.addr != first.3 {
            ctx.fail(
                &format!("header.{name}"),
                &format!("{name}: table header at {pos:#x} is {h:?}; expected version 5, address_size {} (unit {}), segment_selector_size 0", first.3, first.2),
                input,
            );
            return;
        }
        if h.fmt64 != first.4 {
            ctx.obs("secondary.v5_table_format_differs_from_unit");
        }
        if h.count != 0 {
            ctx.obs("secondary.v5_offset_entry_count_nonzero");
        }
        ctx.obs(if h.fmt64 { "header.v5.dwarf64" } else { "header.v5.dwarf32" });
        let owner = first.2;
        pos = h.body;
        while let Some((start, end, u, _, _)) = iv.get(i) {
            if *start >= h.end {
                break;
            }
            if *start != pos || *u != owner {
                ctx.fail(&sig, &format!("{name}: list of unit {u} at {start:#x}; table of unit {owner} is at {pos:#x} (gap = extra copy or garbage)"), input);
                return;
            }
            pos = *end;
            i += 1;
        }
        if pos != h.end {
            ctx.fail(&sig, &format!("{name}: lists of the table end at {pos:#x}, unit_length says {:#x}", h.end), input);
            return;
        }
    }
    if i != iv.len() || seen_tables != tables {
        ctx.fail(&sig, &format!("{name}: {seen_tables} tables (expected {tables}), {} of {} lists located inside tables", i, iv.len()), input);
        return;
    }
    if tables > 0 {
        ctx.obs("tiling.v5");
    }
}

fn distinct_count(lists: &[ListSpec]) -> usize {
    canon(lists).iter().enumerate().filter(|(i, c)| *i == **c).count()
}

fn run_case(ctx: &mut Ctx, stream: &str, spec: &CaseSpec) {
    ctx.eval();
    let raw0 = ctx.obs.get("violations_raw").copied().unwrap_or(0);
    let verdict = model_verdict(spec);
    let desc = format!("{spec:?}");
    let input = || json!({"spec": desc});
    let input: &dyn Fn() -> serde_json::Value = &input;

    // coverage of the quantifier + non-triviality (judged on the generated case)
    ctx.obs(if spec.le { "endian.le" } else { "endian.be" });
    if spec.units.len() > 1 {
        ctx.obs("units.multi");
    }
    let mut n_items = 0;
    for us in &spec.units {
        ctx.obs(&format!("ver.{}", us.enc.version));
        ctx.obs(&format!("addr.{}", us.enc.addr));
        ctx.obs(if us.enc.fmt64 { "fmt.64" } else { "fmt.32" });
        ctx.obs(match us.low_pc {
            LowPc::Absent => "lowpc.absent",
            LowPc::Zero => "lowpc.zero",
            LowPc::NonZero(_) => "lowpc.nonzero",
        });
        n_items += us.rlists.iter().chain(us.llists.iter()).map(|l| l.len()).sum::<usize>();
    }
    if n_items > 0 {
        ctx.nontrivial(fnv(desc.as_bytes()) ^ fnv(stream.as_bytes()));
    }
    if verdict.has_collision {
        ctx.obs("cls.Collision");
    }
    if spec.units.iter().any(|us| us.enc.version <= 4 && us.rlists.iter().chain(us.llists.iter()).flatten().any(|it| it.kind == Kind::StartLength && it.a.checked_add(it.b).is_none())) {
        ctx.obs("cls.Overflow64");
    }

    // ---- write
    let wout = match ctx.guard_raw("write::Dwarf::write", || build_and_write(spec)) {
        Ok(w) => w,
        Err(p) => {
            if KNOWN_STARTLENGTH_OVERFLOW && verdict.has_overflow && p.message.contains("attempt to add with overflow") {
                ctx.obs("known.startlength_overflow_panic");
                ctx.obs("outcome.unjudged");
                ctx.sample("known.startlength_overflow", || json!({"spec": desc.chars().take(1500).collect::<String>(), "panic": format!("{}:{}: {}", p.file, p.line, p.message)}));
            } else {
                ctx.report_panic("write::Dwarf::write", &p, input);
            }
            return;
        }
    };

    // ---- identifiers: equal lists <=> equal ids
    for (u, us) in spec.units.iter().enumerate() {
        let (Some(rc), Some(lc)) = (wout.rcanon.get(u), wout.lcanon.get(u)) else { continue };
        ctx.check_eq("ids.ranges", &canon(&us.rlists), rc, input);
        ctx.check_eq("ids.locs", &canon(&us.llists), lc, input);
    }
    ctx.check_eq("table.get", &true, &wout.get_ok, input);

    // ---- outcome
    match (&verdict.expect, &wout.res) {
        (Expect::MustErr(c), Ok(())) => {
            ctx.obs(&format!("cls.{}", c.name()));
            ctx.fail(
                &format!("write.ok_for_unrepresentable.{}", c.name()),
                &format!("write::Dwarf::write returned Ok for a case whose first unrepresentable item is {}", c.name()),
                input,
            );
            return;
        }
        (Expect::MustErr(c), Err(e)) => {
            ctx.obs("outcome.err");
            ctx.obs(&format!("cls.{}", c.name()));
            let variant: String = e.chars().take_while(|ch| ch.is_ascii_alphanumeric()).collect();
            ctx.obs(&format!("err.{variant}"));
            if let Some(c) = verdict.single_err {
                let want = match c {
                    Cls::Empty | Cls::DefaultBeforeV5 => "InvalidRange",
                    Cls::NeedsBase => "MissingBaseAddress",
                    Cls::ConflictsBase => "UnexpectedBaseAddress",
                    _ => "ValueTooLarge",
                };
                if want != variant {
                    ctx.obs("secondary.err_variant_differs");
                }
            }
            return;
        }
        (Expect::MustOk, Err(e)) => {
            ctx.fail("write.err_for_representable", &format!("write::Dwarf::write returned Err({e}) for a case in which every list is representable"), input);
            return;
        }
        (Expect::MustOk, Ok(())) => ctx.obs("outcome.ok"),
        (Expect::Unjudged, Ok(())) => {
            ctx.obs("outcome.unjudged");
            ctx.obs("unjudged.ok");
        }
        (Expect::Unjudged, Err(_)) => {
            ctx.obs("outcome.unjudged");
            ctx.obs("unjudged.err");
            return;
        }
    }

    // ---- read back
    let secs = &wout.secs;
    let le = spec.le;
    let Some(rb) = ctx.guard("read_back", input, || read_back(secs, le)) else { return };
    let runits = match rb {
        Ok(u) => u,
        Err(e) => {
            ctx.fail("readback.error", &format!("reading the emitted sections back failed: {e}"), input);
            return;
        }
    };
    if !ctx.check_eq("readback.unit_count", &spec.units.len(), &runits.len(), input) {
        return;
    }
    let offs = Offs { unit: runits.iter().map(|r| r.unit_off).collect(), die: runits.iter().map(|r| r.dies.clone()).collect() };
    let mut ok = true;
    for (u, (us, ru)) in spec.units.iter().zip(runits.iter()).enumerate() {
        ok &= ctx.check_eq("readback.encoding", &(us.enc.version, us.enc.addr, us.enc.fmt64), &(ru.version, ru.addr, ru.fmt64), input);
        ok &= ctx.check_eq("readback.low_pc", &low_pc_value(us.low_pc), &ru.low_pc, input);
        ok &= ctx.check_eq("readback.die_count", &us.dies.len(), &ru.dies.len(), input);
        ok &= ctx.check_eq("readback.attr_count", &(us.rattrs.len(), us.lattrs.len()), &(ru.rattrs.len(), ru.lattrs.len()), input);
        if (0..us.dies.len()).any(|k| !ru.dies.contains_key(&k)) {
            ctx.fail("readback.die_missing", &format!("unit {u}: not every generated entry was found in .debug_info"), input);
            ok = false;
        }
    }
    if !ok {
        return;
    }

    let mut iv_ranges = vec![];
    let mut iv_loc = vec![];
    let mut iv_rnglists = vec![];
    let mut iv_loclists = vec![];
    let mut tiling_ok = !(verdict.has_collision || verdict.has_overflow);
    for (u, (us, ru)) in spec.units.iter().zip(runits.iter()).enumerate() {
        let legacy = us.enc.version <= 4;
        for loc in [false, true] {
            let (lists, attrs, rattrs) = if loc { (&us.llists, &us.lattrs, &ru.lattrs) } else { (&us.rlists, &us.rattrs, &ru.rattrs) };
            let what = if loc { "locs" } else { "ranges" };
            let fam = if legacy { "legacy" } else { "v5" };
            let sec: &[u8] = match (loc, legacy) {
                (false, true) => &secs.ranges,
                (false, false) => &secs.rnglists,
                (true, true) => &secs.loc,
                (true, false) => &secs.loclists,
            };
            let model_canon = canon(lists);
            // offsets per slot (first attribute of the slot)
            let mut slot_off: Vec<Option<usize>> = vec![None; lists.len()];
            for a in attrs {
                let Some(ra) = rattrs.iter().find(|r| r.die == a.die && r.name == a.name) else {
                    ctx.fail("readback.attr_missing", &format!("unit {u}: attribute {:#x} of entry d{} was not read back as a list reference", a.name, a.die), input);
                    tiling_ok = false;
                    continue;
                };
                match slot_off[a.list] {
                    None => slot_off[a.list] = Some(ra.offset),
                    Some(o) => {
                        ctx.check_eq(&format!("offset.same_id.{what}"), &o, &ra.offset, input);
                    }
                }
                let cls = classify_list(us.enc, us.low_pc, &lists[a.list]);
                if !list_clean(&cls) {
                    ctx.obs("skipped.unclean_list");
                    continue;
                }
                let Some(items) = model_items(us.enc, &lists[a.list], u, &offs) else {
                    ctx.harness_error("C16: model could not encode an expression (missing entry offset)");
                    continue;
                };
                // 1. the bytes, by the harness decoder
                let dec = if legacy { decode_legacy(sec, ra.offset, le, us.enc.addr, loc) } else { decode_v5(sec, ra.offset, le, us.enc.addr, loc) };
                match dec {
                    Ok((got, end)) => {
                        if ctx.check_eq(&format!("bytes.{what}.{fam}"), &items, &got, input) {
                            for it in &lists[a.list] {
                                ctx.obs(&format!("kind.{what}.{}", it.kind.name()));
                                if let Some(x) = &it.x {
                                    xspec_obs(ctx, x);
                                }
                            }
                        }
                        match (loc, legacy) {
                            (false, true) => iv_ranges.push((ra.offset, end, u)),
                            (true, true) => iv_loc.push((ra.offset, end, u)),
                            (false, false) => iv_rnglists.push((ra.offset, end, u, us.enc.addr, us.enc.fmt64)),
                            (true, false) => iv_loclists.push((ra.offset, end, u, us.enc.addr, us.enc.fmt64)),
                        }
                    }
                    Err(e) => {
                        ctx.fail(&format!("bytes.{what}.{fam}"), &format!("unit {u}: list at {:#x} does not decode in the encoding of version {}: {e}", ra.offset, us.enc.version), input);
                        tiling_ok = false;
                    }
                }
                // 2. gimli's raw iterator
                match &ra.raw {
                    Ok(got) => {
                        ctx.check_eq(&format!("raw.{what}.{fam}"), &items, got, input);
                    }
                    Err(e) => ctx.fail(&format!("raw.{what}.{fam}"), &format!("unit {u}: raw iterator failed: {e}"), input),
                }
                // 3. resolved through the unit's base address
                let exp = resolve(us.enc, us.low_pc, &lists[a.list], &items);
                match &ra.res {
                    Ok(got) => match match_resolved(&exp, got) {
                        Ok((must, absent, present, dflt)) => {
                            ctx.obs_n("resolved.must", must);
                            ctx.obs_n("resolved.optional_absent", absent);
                            ctx.obs_n("resolved.optional_present", present);
                            if dflt {
                                ctx.obs("secondary.default_location_range_differs");
                            }
                        }
                        Err(e) => ctx.fail(&format!("resolved.{what}.{fam}"), &format!("unit {u} (low_pc {:?}): {e}; model {exp:?}; read back {got:?}", us.low_pc), input),
                    },
                    Err(e) => ctx.fail(&format!("resolved.{what}.{fam}"), &format!("unit {u}: resolved iterator failed: {e}"), input),
                }
                ctx.obs(&format!("compared.{what}.{fam}"));
                if model_canon[a.list] != a.list {
                    ctx.obs("dup.exact");
                }
            }
            // equal lists <=> one offset
            if slot_off.iter().all(|o| o.is_some()) {
                let offsets: Vec<usize> = slot_off.iter().map(|o| o.unwrap_or(0)).collect();
                ctx.check_eq(&format!("offset.sharing.{what}"), &model_canon, &canon(&offsets), input);
            } else {
                tiling_ok = false;
            }
        }
    }
    // ---- one emitted copy per distinct list, nothing else in the sections
    if tiling_ok && ctx.obs.get("violations_raw").copied().unwrap_or(0) == raw0 {
        let legacy_units: Vec<&UnitSpec> = spec.units.iter().filter(|u| u.enc.version <= 4).collect();
        let v5_units: Vec<&UnitSpec> = spec.units.iter().filter(|u| u.enc.version >= 5).collect();
        tile_legacy(ctx, "debug_ranges", &secs.ranges, iv_ranges, legacy_units.iter().map(|u| distinct_count(&u.rlists)).sum(), input);
        tile_legacy(ctx, "debug_loc", &secs.loc, iv_loc, legacy_units.iter().map(|u| distinct_count(&u.llists)).sum(), input);
        tile_v5(ctx, "debug_rnglists", &secs.rnglists, le, iv_rnglists, v5_units.iter().filter(|u| !u.rlists.is_empty()).count(), v5_units.iter().map(|u| distinct_count(&u.rlists)).sum(), input);
        tile_v5(ctx, "debug_loclists", &secs.loclists, le, iv_loclists, v5_units.iter().filter(|u| !u.llists.is_empty()).count(), v5_units.iter().map(|u| distinct_count(&u.llists)).sum(), input);
    }
    ctx.sample(stream, || json!({"spec": desc.chars().take(1500).collect::<String>(), "debug_ranges": hex(&secs.ranges), "debug_rnglists": hex(&secs.rnglists), "debug_loc": hex(&secs.loc), "debug_loclists": hex(&secs.loclists)}));
}

// ================================================================ generators

fn bset(m: u64) -> Vec<u64> {
    let mut v = vec![0, 1, 2, 0x10, 0x7f, 0x80, 0xfe, 0xff, m / 2, m / 2 + 1, m - 2, m - 1, m];
    v.retain(|x| *x <= m);
    v
}

/// An address that fits the address size, biased to boundaries.
fn addr_val(r: &mut Rng, m: u64) -> u64 {
    match r.below(8) {
        0..=2 => *r.pick(&bset(m)),
        3 | 4 => r.below(0x1000) & m,
        5 => r.next() & m,
        6 => m - r.below(4),
        _ => (m / 2).wrapping_add(r.below(9)).wrapping_sub(4) & m,
    }
}

fn off64(r: &mut Rng) -> u64 {
    match r.below(4) {
        0 => r.below(0x400),
        1 => r.below(4),
        _ => r.boundary(),
    }
}

/// Make (a, b) a non-empty legacy pair that fits and does not start with the marker.
fn fix_pair(a: u64, b: u64, m: u64) -> (u64, u64) {
    let mut a = a & m;
    let mut b = b & m;
    if a == m {
        a = m - 1;
    }
    if a == b {
        b = if a == 0 { 1 } else { a - 1 };
    }
    (a, b)
}

fn gen_pair(r: &mut Rng, m: u64) -> (u64, u64) {
    match r.below(8) {
        0..=4 => {
            let a = r.below(0x800) & m;
            let b = a.saturating_add(1 + r.below(0x100)).min(m);
            fix_pair(a, b, m)
        }
        5 | 6 => fix_pair(*r.pick(&bset(m)), *r.pick(&bset(m)), m),
        _ => fix_pair(addr_val(r, m), addr_val(r, m), m),
    }
}

fn gen_reg(r: &mut Rng) -> u16 {
    *r.pick(&[0u16, 1, 31, 32, 33, 127, 128, 0x3fff, 0x4000, 0xffff])
}

fn gen_op(r: &mut Rng, u: usize, dc: &[usize], enc: Enc, nested: bool) -> XOp {
    let m = mask_of(enc);
    let k = r.usize(dc[u]);
    let uu = r.usize(dc.len());
    let kk = r.usize(dc[uu]);
    let sc = |r: &mut Rng| r.boundary() as i64;
    match r.below(30) {
        0 => XOp::Simple(*r.pick(&[0x13u8, 0x1a, 0x1c, 0x22, 0x96, 0x9f, 0x9c, 0x97])),
        1 => XOp::Addr(addr_val(r, m)),
        2 => XOp::Constu(if r.bool() { r.below(34) } else { r.boundary() }),
        3 => XOp::Consts(sc(r)),
        4 => XOp::Fbreg(sc(r)),
        5 => XOp::Breg(gen_reg(r), sc(r)),
        6 => XOp::Reg(gen_reg(r)),
        7 => XOp::Pick(*r.pick(&[0u8, 1, 2, 3, 255])),
        8 => XOp::Deref,
        9 => XOp::DerefSize(r.next() as u8),
        10 => XOp::PlusUconst(r.boundary()),
        11 => XOp::Piece(r.boundary()),
        12 => XOp::BitPiece(r.boundary(), r.boundary()),
        13 => {
            let n = r.usize(6);
            XOp::ImplicitValue(r.bytes(n))
        }
        14 => {
            let n = r.usize(5);
            XOp::ConstType(k, r.bytes(n))
        }
        15 => XOp::RegvalType(gen_reg(r), k),
        16 | 27 => XOp::DerefType(r.next() as u8, k),
        17 => XOp::Convert(if r.chance(3, 4) { Some(k) } else { None }),
        18 => XOp::Reinterpret(if r.chance(3, 4) { Some(k) } else { None }),
        19 | 28 => XOp::Call(k),
        20 => XOp::ParameterRef(k),
        21 => XOp::CallRef(uu, kk),
        22 => XOp::VariableValue(uu, kk),
        23 | 29 => {
            if enc.version == 2 && enc.addr < 4 {
                XOp::Constu(32)
            } else {
                XOp::ImplicitPointer(uu, kk, sc(r))
            }
        }
        24 => {
            if nested {
                XOp::Fbreg(0)
            } else {
                let n = r.usize(3);
                XOp::EntryValue((0..n).map(|_| gen_op(r, u, dc, enc, true)).collect())
            }
        }
        25 => {
            if nested {
                XOp::Deref
            } else {
                XOp::SkipToEnd
            }
        }
        _ => {
            if nested {
                XOp::Reg(3)
            } else {
                XOp::BraToEnd
            }
        }
    }
}

fn gen_xspec(r: &mut Rng, u: usize, dc: &[usize], enc: Enc) -> XSpec {
    match r.below(10) {
        0 => {
            let n = r.usize(7);
            XSpec::Raw(r.bytes(n))
        }
        1 => XSpec::Ops(vec![]),
        _ => {
            let n = 1 + r.usize(4);
            XSpec::Ops((0..n).map(|_| gen_op(r, u, dc, enc, false)).collect())
        }
    }
}

struct G<'a> {
    u: usize,
    dc: &'a [usize],
    enc: Enc,
    loc: bool,
}

impl G<'_> {
    fn x(&self, r: &mut Rng, kind: Kind) -> Option<XSpec> {
        if self.loc && kind != Kind::Base {
            Some(gen_xspec(r, self.u, self.dc, self.enc))
        } else {
            None
        }
    }
    fn item(&self, kind: Kind, a: u64, b: u64, r: &mut Rng) -> Item {
        Item { kind, a, b, x: self.x(r, kind) }
    }

    /// A representable item for the state `have_base`.
    fn good(&self, r: &mut Rng, have_base: bool) -> Item {
        let m = mask_of(self.enc);
        if self.enc.version >= 5 {
            let nk = if self.loc { 5 } else { 4 };
            return match r.below(nk) {
                0 => self.item(Kind::Base, addr_val(r, m), 0, r),
                1 => {
                    let a = off64(r);
                    let b = if r.chance(1, 5) { a } else if r.bool() { a.wrapping_add(1 + r.below(0x100)) } else { off64(r) };
                    self.item(Kind::OffsetPair, a, b, r)
                }
                2 => {
                    let (a, b) = if r.chance(1, 6) {
                        let a = addr_val(r, m);
                        (a, a)
                    } else if r.bool() {
                        gen_pair(r, m)
                    } else {
                        (addr_val(r, m), addr_val(r, m))
                    };
                    self.item(Kind::StartEnd, a, b, r)
                }
                3 => {
                    let a = addr_val(r, m);
                    let len = match r.below(6) {
                        0 => 0,
                        1 => 1,
                        2 => r.below(0x200),
                        3 => m - a,
                        4 => (m - a).wrapping_add(1 + r.below(3)),
                        _ => r.boundary(),
                    };
                    self.item(Kind::StartLength, a, len, r)
                }
                _ => self.item(Kind::Default, 0, 0, r),
            };
        }
        if r.chance(1, 5) {
            return self.item(Kind::Base, addr_val(r, m), 0, r);
        }
        if have_base {
            let (a, b) = gen_pair(r, m);
            self.item(Kind::OffsetPair, a, b, r)
        } else if r.bool() {
            let (a, b) = gen_pair(r, m);
            self.item(Kind::StartEnd, a, b, r)
        } else {
            let a = addr_val(r, m).min(m - 1);
            let room = m - a;
            let len = match r.below(4) {
                0 => 1,
                1 => room,
                _ => 1 + r.below(room.min(0x100)),
            };
            self.item(Kind::StartLength, a, len, r)
        }
    }

    fn good_list(&self, r: &mut Rng, lp: LowPc) -> ListSpec {
        let n = r.small(5) as usize;
        let mut have = unit_has_base(lp);
        let mut l = vec![];
        for _ in 0..n {
            let it = self.good(r, have);
            have |= it.kind == Kind::Base;
            l.push(it);
        }
        l
    }

    fn state_at(&self, lp: LowPc, l: &ListSpec, p: usize) -> bool {
        unit_has_base(lp) || l[..p.min(l.len())].iter().any(|i| i.kind == Kind::Base)
    }

    /// Insert one item of class `cls` (falls back to another class where `cls` cannot
    /// arise; the model's classification, not this intent, is the oracle).
    fn inject(&self, r: &mut Rng, lp: LowPc, l: &mut ListSpec, cls: Cls) {
        let m = mask_of(self.enc);
        let legacy = self.enc.version <= 4;
        let mut p = r.usize(l.len() + 1);
        let mut have = self.state_at(lp, l, p);
        let mut cls = cls;
        if !legacy && cls != Cls::TooLarge {
            return;
        }
        if cls == Cls::TooLarge && self.enc.addr >= 8 {
            if !legacy {
                return;
            }
            cls = Cls::Empty;
        }
        if cls == Cls::DefaultBeforeV5 && !self.loc {
            cls = Cls::Empty;
        }
        if cls == Cls::NeedsBase && unit_has_base(lp) {
            cls = Cls::Empty;
        }
        let it = match cls {
            Cls::Empty => {
                let v = if r.chance(1, 4) { 0 } else { addr_val(r, m) };
                if have {
                    self.item(Kind::OffsetPair, v, v, r)
                } else if r.bool() {
                    self.item(Kind::StartEnd, v, v, r)
                } else {
                    self.item(Kind::StartLength, v, 0, r)
                }
            }
            Cls::NeedsBase => {
                let first_base = l.iter().position(|i| i.kind == Kind::Base).unwrap_or(l.len());
                p = r.usize(first_base + 1);
                let (a, b) = gen_pair(r, m);
                self.item(Kind::OffsetPair, a, b, r)
            }
            Cls::ConflictsBase => {
                if !have {
                    if let Some(i) = l.iter().position(|i| i.kind == Kind::Base) {
                        p = i + 1 + r.usize(l.len() - i);
                    } else {
                        let b = self.item(Kind::Base, addr_val(r, m), 0, r);
                        l.push(b);
                        p = l.len();
                    }
                }
                if r.bool() {
                    let (a, b) = gen_pair(r, m);
                    self.item(Kind::StartEnd, a, b, r)
                } else {
                    self.item(Kind::StartLength, addr_val(r, m).min(m - 1), 1, r)
                }
            }
            Cls::DefaultBeforeV5 => self.item(Kind::Default, 0, 0, r),
            Cls::TooLarge => {
                let big = match r.below(3) {
                    0 => m + 1,
                    1 => m + 1 + r.below(0x100),
                    _ => (r.boundary() | (m + 1)) & !m | (m + 1),
                };
                if !legacy {
                    have = r.bool();
                }
                match r.below(4) {
                    0 => self.item(Kind::Base, big, 0, r),
                    _ if legacy && have => {
                        if r.bool() {
                            self.item(Kind::OffsetPair, 1, big, r)
                        } else {
                            self.item(Kind::OffsetPair, big, 2, r)
                        }
                    }
                    1 => self.item(Kind::StartEnd, 1, big, r),
                    2 => self.item(Kind::StartEnd, big, 2, r),
                    _ => {
                        if legacy && r.bool() {
                            self.item(Kind::StartLength, m - 1, 2 + r.below(8), r)
                        } else {
                            self.item(Kind::StartLength, big, 1, r)
                        }
                    }
                }
            }
            Cls::Collision => {
                let v = addr_val(r, m).min(m - 1);
                if have {
                    self.item(Kind::OffsetPair, m, v, r)
                } else {
                    self.item(Kind::StartEnd, m, v, r)
                }
            }
            Cls::Overflow64 => {
                let a = if self.enc.addr >= 8 && r.bool() { u64::MAX - r.below(4) } else { addr_val(r, m).max(4) };
                let len = (u64::MAX - a).wrapping_add(1 + r.below(3));
                self.item(Kind::StartLength, a, len, r)
            }
            Cls::Ok => self.good(r, have),
        };
        l.insert(p.min(l.len()), it);
    }

    /// `n` list slots: fresh lists, exact duplicates and near-duplicates.
    fn lists(&self, r: &mut Rng, lp: LowPc, n: usize, inject: Option<Cls>, near: &mut u32) -> Vec<ListSpec> {
        let nf = 1 + r.usize(n);
        let mut out: Vec<ListSpec> = (0..nf).map(|_| self.good_list(r, lp)).collect();
        if let Some(cls) = inject {
            let i = r.usize(nf);
            self.inject(r, lp, &mut out[i], cls);
        }
        while out.len() < n {
            let mut l = out[r.usize(out.len())].clone();
            if r.chance(2, 5) {
                *near += 1;
                if l.is_empty() || r.bool() {
                    let have = self.state_at(lp, &l, l.len());
                    let it = self.good(r, have);
                    l.push(it);
                } else {
                    l.pop();
                }
            }
            let at = r.usize(out.len() + 1);
            out.insert(at, l);
        }
        out
    }
}

fn slot_count(r: &mut Rng) -> usize {
    match r.below(4) {
        0 => 1,
        1 => 2,
        2 => 1 + r.usize(4),
        _ => 1 + r.usize(6),
    }
}

struct Gen {
    spec: CaseSpec,
    near_dups: u32,
}

fn gen_case(r: &mut Rng) -> Gen {
    let le = r.bool();
    let nunits = 1 + r.chance(1, 3) as usize + r.chance(1, 6) as usize;
    let mut units = vec![];
    let mut slots = vec![];
    for _ in 0..nunits {
        let enc = Enc { le, fmt64: r.chance(1, 3), version: 2 + r.below(4) as u16, addr: *r.pick(&[1u8, 2, 4, 4, 4, 8, 8, 8]) };
        let m = mask_of(enc);
        let low_pc = match r.below(4) {
            0 => LowPc::Absent,
            1 => LowPc::Zero,
            _ => LowPc::NonZero(match r.below(10) {
                0 => m - r.below(2),
                1 => m - 2 - r.below(0x20),
                _ => addr_val(r, m).max(1),
            }),
        };
        let (nr, nl) = (slot_count(r), slot_count(r));
        let mut dies = vec![DieSpec { parent: 0, tag: 0x11 }];
        for _ in 0..r.below(4) {
            dies.push(DieSpec { parent: 0, tag: 0x24 });
        }
        let mut rattrs = vec![];
        let mut lattrs = vec![];
        let mut rdie = vec![];
        for s in 0..nr {
            let die = if s == 0 && r.chance(1, 3) {
                0
            } else {
                let parent = if r.chance(1, 3) && !rdie.is_empty() { *r.pick(&rdie) } else { 0 };
                dies.push(DieSpec { parent, tag: *r.pick(&[0x2eu16, 0x0b, 0x1d]) });
                dies.len() - 1
            };
            rdie.push(die);
            let name = if r.chance(1, 6) { 0x2c } else { 0x55 };
            rattrs.push(AttrSpec { die, name, list: s });
            if r.chance(1, 6) {
                dies.push(DieSpec { parent: 0, tag: 0x0b });
                rattrs.push(AttrSpec { die: dies.len() - 1, name: 0x55, list: s });
            }
        }
        for s in 0..nl {
            let die = if s < nr && r.chance(1, 3) {
                rdie[s]
            } else {
                let parent = if r.chance(1, 2) { *r.pick(&rdie) } else { 0 };
                dies.push(DieSpec { parent, tag: *r.pick(&[0x34u16, 0x05]) });
                dies.len() - 1
            };
            let name = if r.chance(1, 4) { 0x40 } else { 0x02 };
            lattrs.push(AttrSpec { die, name, list: s });
            if r.chance(1, 6) {
                dies.push(DieSpec { parent: 0, tag: 0x34 });
                lattrs.push(AttrSpec { die: dies.len() - 1, name: 0x02, list: s });
            }
        }
        slots.push((nr, nl));
        units.push(UnitSpec { enc, low_pc, low_pc_last: r.bool(), decoys: r.below(8) as u8, dies, rlists: vec![], llists: vec![], rattrs, lattrs });
    }
    // what to inject, and where
    let inject: Option<Cls> = match r.below(20) {
        0..=11 => None,
        12 | 13 => Some(Cls::Empty),
        14 => Some(Cls::NeedsBase),
        15 => Some(Cls::ConflictsBase),
        16 => Some(Cls::DefaultBeforeV5),
        17 => Some(Cls::TooLarge),
        18 => Some(Cls::Collision),
        _ => Some(Cls::Overflow64),
    };
    let target = {
        let want_small = inject == Some(Cls::TooLarge);
        let cands: Vec<usize> = (0..nunits).filter(|&i| if want_small { units[i].enc.addr < 8 } else { units[i].enc.version <= 4 }).collect();
        if cands.is_empty() {
            r.usize(nunits)
        } else {
            *r.pick(&cands)
        }
    };
    let target_loc = if inject == Some(Cls::DefaultBeforeV5) { true } else { r.bool() };
    let dc: Vec<usize> = units.iter().map(|u| u.dies.len()).collect();
    let mut near = 0;
    for u in 0..nunits {
        let (enc, lp) = (units[u].enc, units[u].low_pc);
        let inj = |loc: bool| if u == target && loc == target_loc { inject } else { None };
        let g = G { u, dc: &dc, enc, loc: false };
        units[u].rlists = g.lists(r, lp, slots[u].0, inj(false), &mut near);
        let g = G { u, dc: &dc, enc, loc: true };
        units[u].llists = g.lists(r, lp, slots[u].1, inj(true), &mut near);
    }
    Gen { spec: CaseSpec { le, units }, near_dups: near }
}

// ---------------------------------------------------------------- decision-table enumeration

const TABLE_N: u64 = 64 * 3 * 2 * 2 * 5 * 10;

fn table_case(idx: u64) -> Option<CaseSpec> {
    let enc = Enc::nth(idx % 64);
    let mut rest = idx / 64;
    let lp_sel = rest % 3;
    rest /= 3;
    let loc = rest % 2 == 1;
    rest /= 2;
    let prebase = rest % 2 == 1;
    rest /= 2;
    let kind = [Kind::Base, Kind::OffsetPair, Kind::StartEnd, Kind::StartLength, Kind::Default][(rest % 5) as usize];
    rest /= 5;
    let pat = (rest % 10) as usize;
    let m = mask_of(enc);
    let small = enc.addr < 8;
    let (a, b) = match kind {
        Kind::Default => {
            if !loc || pat != 0 {
                return None;
            }
            (0, 0)
        }
        Kind::Base => match pat {
            0 => (0x10, 0),
            2 => (0, 0),
            4 => (m, 0),
            5 => (m - 1, 0),
            7 if small => (m + 1, 0),
            _ => return None,
        },
        Kind::OffsetPair | Kind::StartEnd => match pat {
            0 => (0x10, 0x20),
            1 => (0x10, 0x10),
            2 => (0, 0),
            3 => (0, 1),
            4 => (m, 5),
            5 => (m - 1, m),
            6 => (0x20, 0x10),
            7 if small => (m + 1, m + 2),
            8 => (1, m),
            9 => (0, m),
            _ => return None,
        },
        Kind::StartLength => match pat {
            0 => (0x10, 0x10),
            1 => (0x10, 0),
            2 => (0, 0),
            3 => (0, 1),
            4 => (m, 1),
            5 => (m - 1, 1),
            6 => (m - 3, 8),
            7 if small => (1, m + 1),
            8 => (1, m - 1),
            9 => (0, m),
            _ => return None,
        },
    };
    let low_pc = match lp_sel {
        0 => LowPc::Absent,
        1 => LowPc::Zero,
        _ => LowPc::NonZero(m / 4 + 1),
    };
    let x = |alt: bool| {
        if !loc {
            None
        } else if alt {
            Some(XSpec::Ops(vec![XOp::DerefType(4, 1), XOp::Call(2)]))
        } else {
            Some(XSpec::Ops(vec![XOp::Fbreg(-8)]))
        }
    };
    let mut list = vec![];
    if prebase {
        list.push(Item { kind: Kind::Base, a: 0x40, b: 0, x: None });
    }
    list.push(Item { kind, a, b, x: if kind == Kind::Base { None } else { x(pat % 2 == 1) } });
    if kind == Kind::Base {
        // give the base address something to apply to
        list.push(Item { kind: Kind::OffsetPair, a: 1, b: 2, x: x(false) });
    }
    let dies = vec![DieSpec { parent: 0, tag: 0x11 }, DieSpec { parent: 0, tag: 0x24 }, DieSpec { parent: 0, tag: 0x2e }];
    let attr = vec![AttrSpec { die: 2, name: if loc { 0x02 } else { 0x55 }, list: 0 }];
    let (rlists, llists, rattrs, lattrs) = if loc { (vec![], vec![list], vec![], attr) } else { (vec![list], vec![], attr, vec![]) };
    Some(CaseSpec { le: enc.le, units: vec![UnitSpec { enc, low_pc, low_pc_last: pat % 2 == 0, decoys: (idx % 8) as u8, dies, rlists, llists, rattrs, lattrs }] })
}

pub fn run(ctx: &mut Ctx) {
    for idx in 0..TABLE_N {
        if !ctx.want("table", idx) {
            continue;
        }
        let Some(spec) = table_case(idx) else { continue };
        run_case(ctx, "table", &spec);
    }
    let n = ctx.size(60_000, 600_000, 8);
    for i in 0..n {
        if !ctx.want("rand", i) {
            continue;
        }
        let mut r = ctx.rng("rand", i);
        let g = gen_case(&mut r);
        if g.near_dups > 0 {
            ctx.obs_n("dup.near", g.near_dups as u64);
        }
        run_case(ctx, "rand", &g.spec);
    }
}

//! `gv` — runtime monitors for the 20 gimli properties (see /verif/DESIGN.md).
#![allow(clippy::all)]
#![allow(dead_code)]
#![allow(unused_variables)]
#![allow(unused_mut)]
#![allow(unused_imports)]

pub mod asm;
pub mod gen;
pub mod model;
pub mod mon;
pub mod props;
pub mod rt;

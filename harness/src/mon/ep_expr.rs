//! C01 entry points: expression decoding and the evaluator driven with arbitrary answers.

use super::entries::{drain, Mk, Mon, Secs, P};
use crate::rt::Rng;
use gimli::read::{EvaluationResult, Reader, ReaderOffset};
use gimli::{Evaluation, EvaluationStorage, Expression, Piece, Value, ValueType};

pub struct SmallEval;
impl<R: Reader> EvaluationStorage<R> for SmallEval {
    type Stack = [Value; 4];
    type ExpressionStack = [(R, R); 2];
    type Result = [Piece<R>; 2];
}

pub fn any_value(r: &mut Rng) -> Value {
    let x = r.boundary();
    match r.below(14) {
        0 | 1 | 2 => Value::Generic(x),
        3 => Value::I8(x as i8),
        4 => Value::U8(x as u8),
        5 => Value::I16(x as i16),
        6 => Value::U16(x as u16),
        7 => Value::I32(x as i32),
        8 => Value::U32(x as u32),
        9 => Value::I64(x as i64),
        10 => Value::U64(x),
        11 => Value::F32(*r.pick(&[0.0f32, -0.0, 1.5, f32::NAN, f32::INFINITY, f32::NEG_INFINITY, f32::MAX, f32::MIN_POSITIVE])),
        12 => Value::F64(*r.pick(&[0.0f64, -0.0, 1.5, f64::NAN, f64::INFINITY, f64::NEG_INFINITY, f64::MAX, 1e308])),
        _ => Value::F64(f64::from_bits(x)),
    }
}

pub fn any_type(r: &mut Rng) -> ValueType {
    *r.pick(&[
        ValueType::Generic,
        ValueType::I8,
        ValueType::U8,
        ValueType::I16,
        ValueType::U16,
        ValueType::I32,
        ValueType::U32,
        ValueType::I64,
        ValueType::U64,
        ValueType::F32,
        ValueType::F64,
    ])
}

/// Drive one evaluation to completion (or error), answering every request from `r`,
/// following the documented protocol: `evaluate()` once, then exactly the `resume_with_*`
/// that matches the returned `Requires*`.
fn drive<'a, M: Mk<'a>, S: EvaluationStorage<M::R>>(m: &M, mut eval: Evaluation<M::R, S>, nested: &'a [u8], r: &mut Rng, len: usize, limited: bool, mon: &mut Mon) {
    let mut res = eval.evaluate();
    // every step either consumes >= 1 byte of some expression or is bounded by the
    // iteration limit; nested at_location answers add `nested.len()` bytes each.
    let bound = 64 * (len as u64 + nested.len() as u64 + 4) + 3 * 5000 + 4096;
    let mut steps = 0u64;
    loop {
        steps += 1;
        if !mon.tick() {
            return;
        }
        if steps > bound {
            if limited {
                mon.problem(
                    "nonterm|Evaluation(max_iterations)",
                    format!("evaluation with an iteration limit still running after {} resume steps", steps - 1),
                );
            }
            // without an iteration limit an expression may legitimately loop for ever
            return;
        }
        let cur = match res {
            Ok(x) => x,
            Err(_) => {
                mon.errs += 1;
                return;
            }
        };
        res = match cur {
            EvaluationResult::Complete => {
                mon.oks += 1;
                let _ = eval.value_result();
                let _ = eval.as_result().len();
                return;
            }
            EvaluationResult::RequiresMemory { .. } => eval.resume_with_memory(any_value(r)),
            EvaluationResult::RequiresRegister { .. } => eval.resume_with_register(any_value(r)),
            EvaluationResult::RequiresWasmLocal { .. } | EvaluationResult::RequiresWasmGlobal { .. } | EvaluationResult::RequiresWasmStack { .. } => {
                eval.resume_with_wasm_value(any_value(r))
            }
            EvaluationResult::RequiresFrameBase => eval.resume_with_frame_base(r.boundary()),
            EvaluationResult::RequiresTls(_) => eval.resume_with_tls(r.boundary()),
            EvaluationResult::RequiresCallFrameCfa => eval.resume_with_call_frame_cfa(r.boundary()),
            EvaluationResult::RequiresAtLocation(_) => {
                let bytes: &'a [u8] = if r.chance(1, 3) { &nested[..0] } else { &nested[r.usize(nested.len() + 1).min(nested.len())..] };
                eval.resume_with_at_location(m.mk(bytes))
            }
            EvaluationResult::RequiresEntryValue(_) => eval.resume_with_entry_value(any_value(r)),
            EvaluationResult::RequiresParameterRef(_) => eval.resume_with_parameter_ref(r.boundary()),
            EvaluationResult::RequiresRelocatedAddress(_) => eval.resume_with_relocated_address(r.boundary()),
            EvaluationResult::RequiresIndexedAddress { .. } => eval.resume_with_indexed_address(r.boundary()),
            EvaluationResult::RequiresBaseType(_) => eval.resume_with_base_type(any_type(r)),
        };
    }
}

/// `Operation::parse` over the whole byte string, then `Evaluation` under several set-ups.
pub fn expr<'a, M: Mk<'a>>(m: &M, s: &'a Secs, p: &P, mon: &mut Mon) {
    let bytes: &'a [u8] = &s.expr;
    let len = bytes.len();
    let enc = p.enc.encoding();
    {
        let e = Expression(m.mk(bytes));
        let mut ops = e.clone().operations(enc);
        drain!(mon, "OperationIter::next", len, false, ops.next(), |_op| {
            let _ = ops.offset_from(&e);
        });
    }
    // decode starting at every offset (bounded)
    let step = (len / 64).max(1);
    let mut off = 0;
    while off < len {
        let mut rd = m.mk(&bytes[off..]);
        let _ = gimli::Operation::parse(&mut rd, enc);
        off += step;
    }
    let mut r = Rng::new(p.seed ^ 0x6578_7072);
    for round in 0..4u64 {
        // generous iteration limit (without any limit `DW_OP_skip -3` legitimately loops for
        // ever inside `evaluate`, which is documented behaviour, not a hang of the library)
        {
            let mut eval = Expression(m.mk(bytes)).evaluation(enc);
            eval.set_max_iterations(5000);
            if round & 1 == 1 {
                eval.set_initial_value(r.boundary());
            }
            if round & 2 == 2 {
                eval.set_object_address(r.boundary());
            }
            drive::<M, gimli::StoreOnHeap>(m, eval, bytes, &mut r, len, true, mon);
        }
        // with an iteration limit: must end within the bound
        {
            let mut eval = Expression(m.mk(bytes)).evaluation(enc);
            let limit = *r.pick(&[0u32, 1, 2, 7, 100, 1000]);
            eval.set_max_iterations(limit);
            if round & 1 == 0 {
                eval.set_initial_value(r.boundary());
            }
            drive::<M, gimli::StoreOnHeap>(m, eval, bytes, &mut r, len, limit <= 1000, mon);
        }
        // small fixed storage
        {
            let mut eval: Evaluation<M::R, SmallEval> = Evaluation::new_in(m.mk(bytes), enc);
            eval.set_max_iterations(500);
            drive::<M, SmallEval>(m, eval, bytes, &mut r, len, true, mon);
        }
    }
    // Value / ValueType helpers on arbitrary operands
    let mask = p.enc.addr_mask();
    for _ in 0..24 {
        let a = any_value(&mut r);
        let b = any_value(&mut r);
        let t = any_type(&mut r);
        let _ = (a.value_type(), a.to_u64(mask), Value::from_u64(t, r.boundary()), a.convert(t, mask), a.reinterpret(t, mask));
        let _ = (a.abs(mask), a.neg(mask), a.not(mask));
        let _ = (a.add(b, mask), a.sub(b, mask), a.mul(b, mask), a.div(b, mask), a.rem(b, mask));
        let _ = (a.and(b, mask), a.or(b, mask), a.xor(b, mask), a.shl(b, mask), a.shr(b, mask), a.shra(b, mask));
        let _ = (a.eq(b, mask), a.ge(b, mask), a.gt(b, mask), a.le(b, mask), a.lt(b, mask), a.ne(b, mask));
        let _ = Value::parse(t, m.mk(bytes));
        let _ = t.bit_size(mask);
        let _ = ValueType::from_encoding(gimli::DwAte(r.next() as u8), r.below(20));
    }
}

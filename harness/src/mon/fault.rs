//! (stub)

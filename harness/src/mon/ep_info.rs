//! C01 entry points: units, abbreviations, entries, attributes, `Dwarf` helpers.

use super::entries::{drain, Mk, Mon, Secs, P};
use gimli::read::{Reader, ReaderOffset};
use gimli::{SectionId, UnitOffset};

const MAX_UNITS_DEEP: usize = 24;
const MAX_ENTRIES: u64 = 3000;

fn attr_helpers<R: Reader<Offset = usize>>(attr: &gimli::Attribute<R>, debug_str: &gimli::DebugStr<R>, mon: &mut Mon) {
    let _ = attr.name();
    let _ = attr.form();
    let raw = attr.raw_value();
    let val = attr.value();
    let _ = attr.u8_value();
    let _ = attr.u16_value();
    let _ = attr.udata_value();
    let _ = attr.sdata_value();
    let _ = attr.offset_value();
    let _ = attr.exprloc_value();
    let _ = attr.string_value(debug_str);
    let _ = raw.u8_value();
    let _ = raw.udata_value();
    let _ = raw.sdata_value();
    let _ = val.offset_value();
    let _ = val.u16_value();
    mon.oks += 1;
}

fn tree_walk<'abbrev, 'tree, R: Reader<Offset = usize>>(
    node: gimli::EntriesTreeNode<'abbrev, 'tree, R>,
    depth: usize,
    mon: &mut Mon,
    len: usize,
) {
    let _ = node.entry().tag();
    if depth > 400 {
        return;
    }
    let mut children = node.children();
    let bound = 4 * len as u64 + 64;
    let mut n = 0u64;
    loop {
        n += 1;
        if n > bound {
            mon.problem("nonterm|EntriesTreeIter::next", format!("EntriesTreeIter::next still yielding after {} calls", n - 1));
            return;
        }
        if !mon.tick() {
            return;
        }
        match children.next() {
            Ok(Some(child)) => tree_walk(child, depth + 1, mon, len),
            Ok(None) => return,
            Err(_) => {
                mon.errs += 1;
                // keep calling: an erroring tree iterator must still finish
            }
        }
    }
}

fn one_unit<'a, R: Reader<Offset = usize>>(
    header: &gimli::UnitHeader<R>,
    debug_abbrev: &gimli::DebugAbbrev<R>,
    debug_str: &gimli::DebugStr<R>,
    sec_len: usize,
    p: &P,
    mon: &mut Mon,
) {
    let _ = (
        header.section(),
        header.offset(),
        header.debug_info_offset(),
        header.debug_types_offset(),
        header.size_of_header(),
        header.unit_length(),
        header.length_including_self(),
        header.encoding(),
        header.version(),
        header.type_(),
        header.debug_abbrev_offset(),
        header.address_size(),
        header.format(),
        header.header_size(),
        header.root_offset(),
        header.is_tombstone_address(p.seed),
    );
    let hs = header.header_size();
    let ul = header.length_including_self();
    for off in [0usize, 1, hs, hs + 1, ul.saturating_sub(1), ul, ul.wrapping_add(1), usize::MAX] {
        let o = UnitOffset(off);
        let _ = o.is_in_bounds(header);
        // documented: "For offsets of uncertain origin, use is_in_bounds first"
        if o.is_in_bounds(header) {
            let _ = o.to_unit_section_offset(header);
            let _ = o.to_debug_info_offset(header);
            let _ = o.to_debug_types_offset(header);
        }
        let _ = gimli::DebugInfoOffset(off).to_unit_offset(header);
        let _ = gimli::DebugTypesOffset(off).to_unit_offset(header);
        let _ = (gimli::UnitSectionOffset(off).to_unit_offset(header), gimli::UnitSectionOffset(off).to_debug_info_offset(header), gimli::UnitSectionOffset(off).to_debug_types_offset(header));
        if off <= ul.saturating_add(0) {
            // documented: panics only if start > end; start == end is fine
            let _ = header.range_from(o..);
            let _ = header.range_to(..o);
            let _ = header.range(o..o);
        }
    }
    let Ok(abbrevs) = header.abbreviations(debug_abbrev) else {
        mon.errs += 1;
        return;
    };
    // abbreviation lookups
    for code in [0u64, 1, 2, 3, 127, 128, 1000, u32::MAX as u64 + 5, 1 << 63, u64::MAX] {
        if let Some(a) = abbrevs.get(code) {
            let _ = (a.code(), a.tag(), a.has_children());
            for spec in a.attributes() {
                let _ = (spec.name(), spec.form(), spec.implicit_const_value(), spec.size(header));
            }
        }
    }
    // raw entries (errors end the walk: EntriesRaw documents `?` style use)
    if let Ok(mut raw) = header.entries_raw(&abbrevs, None) {
        let mut entry = gimli::DebuggingInformationEntry::null();
        let mut n = 0u64;
        while !raw.is_empty() {
            n += 1;
            if n > 4 * sec_len as u64 + 64 {
                mon.problem("nonterm|EntriesRaw::read_entry", format!("EntriesRaw not empty after {} successful reads", n - 1));
                break;
            }
            if !mon.tick() {
                break;
            }
            let _ = (raw.next_offset(), raw.next_depth());
            match raw.read_entry(&mut entry) {
                Ok(_) => {
                    let _ = (entry.is_null(), entry.depth(), entry.offset(), entry.tag(), entry.has_children());
                    if n < MAX_ENTRIES {
                        for a in entry.attrs() {
                            attr_helpers(a, debug_str, mon);
                        }
                        let _ = entry.attr(gimli::DW_AT_name);
                        let _ = entry.attr_value(gimli::DW_AT_low_pc);
                        let _ = entry.attr_value_raw(gimli::DW_AT_high_pc);
                        let _ = entry.has_attr(gimli::DW_AT_sibling);
                    }
                }
                Err(_) => {
                    mon.errs += 1;
                    break;
                }
            }
        }
    }
    // raw with skip_attributes
    if let Ok(mut raw) = header.entries_raw(&abbrevs, None) {
        let mut n = 0u64;
        while !raw.is_empty() {
            n += 1;
            if n > 4 * sec_len as u64 + 64 || !mon.tick() {
                break;
            }
            match raw.read_abbreviation() {
                Ok(Some(a)) => {
                    if raw.skip_attributes(a.attributes()).is_err() {
                        break;
                    }
                }
                Ok(None) => {}
                Err(_) => break,
            }
        }
    }
    // cursor: next_dfs
    {
        let mut cur = header.entries(&abbrevs);
        drain!(mon, "EntriesCursor::next_dfs", sec_len, false, cur.next_dfs().map(|o| o.map(|e| e.offset())), |_off| {});
        let _ = (cur.current().is_some(), cur.offset(), cur.depth(), cur.next_offset(), cur.next_depth());
    }
    // cursor: next_entry (Result<bool>)
    {
        let mut cur = header.entries(&abbrevs);
        drain!(mon, "EntriesCursor::next_entry", sec_len, false, cur.next_entry().map(|b| if b { Some(()) } else { None }), |_x| {});
    }
    // cursor: next_sibling, restarted from the first child
    {
        let mut cur = header.entries(&abbrevs);
        let _ = cur.next_dfs();
        let _ = cur.next_dfs();
        drain!(mon, "EntriesCursor::next_sibling", sec_len, false, cur.next_sibling().map(|o| o.map(|e| e.offset())), |_off| {});
    }
    // tree
    if let Ok(mut tree) = header.entries_tree(&abbrevs, None) {
        if let Ok(root) = tree.root() {
            tree_walk(root, 0, mon, sec_len);
        }
        // re-root
        if let Ok(root) = tree.root() {
            let _ = root.entry().offset();
        }
    }
    // positioned reads at many offsets
    let ulen = header.length_including_self();
    let step = (ulen / 160).max(1);
    let mut off = 0usize;
    while off <= ulen.saturating_add(2) {
        if !mon.tick() {
            break;
        }
        let o = UnitOffset(off);
        let _ = header.entry(&abbrevs, o).map(|e| e.tag());
        if let Ok(mut c) = header.entries_at_offset(&abbrevs, o) {
            let _ = c.next_dfs().map(|e| e.map(|e| e.offset()));
            let _ = c.next_sibling().map(|e| e.map(|e| e.offset()));
        }
        if let Ok(mut t) = header.entries_tree(&abbrevs, Some(o)) {
            if let Ok(r) = t.root() {
                let mut ch = r.children();
                let _ = ch.next().map(|n| n.map(|n| n.entry().offset()));
            }
        }
        if let Ok(mut r) = header.entries_raw(&abbrevs, Some(o)) {
            let mut e = gimli::DebuggingInformationEntry::null();
            let _ = r.read_entry(&mut e);
        }
        off = match off.checked_add(step) {
            Some(x) => x,
            None => break,
        };
    }
}

/// `.debug_info` / `.debug_types` unit headers and everything reachable from a `UnitHeader`.
pub fn units<'a, M: Mk<'a>>(m: &M, s: &'a Secs, p: &P, mon: &mut Mon) {
    let debug_abbrev = gimli::DebugAbbrev::from(m.mk(s.get(SectionId::DebugAbbrev)));
    let debug_str = gimli::DebugStr::from(m.mk(s.get(SectionId::DebugStr)));
    {
        let bytes = s.get(SectionId::DebugInfo);
        let debug_info = gimli::DebugInfo::from(m.mk(bytes));
        let mut it = debug_info.units();
        let mut k = 0usize;
        drain!(mon, "DebugInfoUnitHeadersIter::next", bytes.len(), false, it.next(), |h| {
            k += 1;
            if k <= MAX_UNITS_DEEP {
                one_unit(&h, &debug_abbrev, &debug_str, bytes.len(), p, mon);
            }
        });
        for off in [0usize, 1, 4, 11, bytes.len().saturating_sub(1), bytes.len(), bytes.len().wrapping_add(1), usize::MAX] {
            let _ = debug_info.header_from_offset(gimli::DebugInfoOffset(off)).map(|h| h.version());
        }
    }
    {
        let bytes = s.get(SectionId::DebugTypes);
        if !bytes.is_empty() {
            let debug_types = gimli::DebugTypes::from(m.mk(bytes));
            let mut it = debug_types.units();
            let mut k = 0usize;
            drain!(mon, "DebugTypesUnitHeadersIter::next", bytes.len(), false, it.next(), |h| {
                k += 1;
                if k <= MAX_UNITS_DEEP {
                    one_unit(&h, &debug_abbrev, &debug_str, bytes.len(), p, mon);
                }
            });
        }
    }
}

/// `.debug_abbrev` at arbitrary offsets, and the abbreviation cache.
pub fn abbrevs<'a, M: Mk<'a>>(m: &M, s: &'a Secs, p: &P, mon: &mut Mon) {
    let bytes = s.get(SectionId::DebugAbbrev);
    let debug_abbrev = gimli::DebugAbbrev::from(m.mk(bytes));
    let step = (bytes.len() / 64).max(1);
    let mut off = 0usize;
    while off <= bytes.len() + 1 {
        if !mon.tick() {
            break;
        }
        match debug_abbrev.abbreviations(gimli::DebugAbbrevOffset(off)) {
            Ok(a) => {
                mon.oks += 1;
                for code in [1u64, 2, 3, 1000, u64::MAX] {
                    let _ = a.get(code).map(|x| x.tag());
                }
            }
            Err(_) => mon.errs += 1,
        }
        off += step;
    }
    let _ = debug_abbrev.abbreviations(gimli::DebugAbbrevOffset(usize::MAX));
}

fn load_dwarf<'a, M: Mk<'a>>(m: &M, s: &'a Secs, p: &P) -> gimli::Dwarf<M::R> {
    let mut dwarf: gimli::Dwarf<M::R> = gimli::Dwarf::load(|id| Ok::<_, ()>(m.mk(s.get(id)))).unwrap();
    if p.dwo {
        dwarf.file_type = gimli::DwarfFileType::Dwo;
    }
    dwarf
}

fn expr_ops<R: Reader<Offset = usize>>(e: gimli::Expression<R>, enc: gimli::Encoding, mon: &mut Mon) {
    let len = e.0.len();
    let mut ops = e.clone().operations(enc);
    drain!(mon, "OperationIter::next", len, false, ops.next(), |_op| {
        let _ = ops.offset_from(&e);
    });
}

fn unit_deep<R: Reader<Offset = usize>>(dwarf: &gimli::Dwarf<R>, unit: &gimli::Unit<R>, total: usize, p: &P, mon: &mut Mon) {
    let uref = unit.unit_ref(dwarf);
    let _ = unit.encoding();
    let _ = unit.dwo_name();
    let enc = unit.encoding();
    // unit-level helpers
    {
        if let Ok(mut r) = dwarf.unit_ranges(unit) {
            drain!(mon, "RangeIter::next(unit_ranges)", total, false, r.next(), |_r| {});
        }
    }
    let mut cur = unit.entries();
    let mut n = 0u64;
    loop {
        n += 1;
        if n > MAX_ENTRIES || !mon.tick() {
            break;
        }
        let entry = match cur.next_dfs() {
            Ok(Some(e)) => e.clone(),
            Ok(None) => break,
            Err(_) => {
                mon.errs += 1;
                break;
            }
        };
        let _ = gimli::ValueType::from_entry(&entry);
        if let Ok(mut r) = dwarf.die_ranges(unit, &entry) {
            drain!(mon, "RangeIter::next(die_ranges)", total, false, r.next(), |_r| {});
        }
        for attr in entry.attrs() {
            let v = attr.value();
            let _ = dwarf.attr_string(unit, v.clone()).map(|s| s.len());
            let _ = dwarf.attr_line_string(v.clone()).map(|s| s.len());
            let _ = dwarf.attr_address(unit, v.clone());
            let _ = dwarf.attr_ranges_offset(unit, v.clone());
            let _ = dwarf.attr_locations_offset(unit, v.clone());
            let _ = uref.attr_string(v.clone()).map(|s| s.len());
            if let Ok(Some(mut it)) = dwarf.attr_ranges(unit, v.clone()) {
                drain!(mon, "RngListIter::next(attr_ranges)", total, false, it.next(), |_r| {});
            }
            if let Ok(Some(mut it)) = dwarf.attr_locations(unit, v.clone()) {
                drain!(mon, "LocListIter::next(attr_locations)", total, false, it.next(), |l| {
                    expr_ops(l.data, enc, mon);
                });
            }
            match v {
                gimli::AttributeValue::Exprloc(e) => expr_ops(e, enc, mon),
                gimli::AttributeValue::DebugMacinfoRef(o) => {
                    if let Ok(mut it) = dwarf.macinfo(o) {
                        drain!(mon, "MacroIter::next(macinfo)", total, false, it.next(), |e| {
                            macro_entry(&e, &uref);
                        });
                    }
                }
                gimli::AttributeValue::DebugMacroRef(o) => {
                    if let Ok(mut it) = dwarf.macros(o) {
                        drain!(mon, "MacroIter::next(macro)", total, false, it.next(), |e| {
                            macro_entry(&e, &uref);
                        });
                    }
                }
                gimli::AttributeValue::RangeListsRef(o) => {
                    let o = dwarf.ranges_offset_from_raw(unit, o);
                    if let Ok(mut it) = dwarf.raw_ranges(unit, o) {
                        drain!(mon, "RawRngListIter::next", total, false, it.next(), |_r| {});
                    }
                }
                gimli::AttributeValue::LocationListsRef(o) => {
                    if let Ok(mut it) = dwarf.raw_locations(unit, o) {
                        drain!(mon, "RawLocListIter::next", total, false, it.next(), |_r| {});
                    }
                }
                gimli::AttributeValue::DebugRngListsIndex(i) => {
                    let _ = dwarf.ranges_offset(unit, i);
                }
                gimli::AttributeValue::DebugLocListsIndex(i) => {
                    let _ = dwarf.locations_offset(unit, i);
                }
                gimli::AttributeValue::DebugAddrIndex(i) => {
                    let _ = dwarf.address(unit, i);
                }
                gimli::AttributeValue::DebugStrOffsetsIndex(i) => {
                    let _ = dwarf.string_offset(unit, i);
                }
                _ => {}
            }
        }
    }
    // line program of the unit
    if let Some(prog) = unit.line_program.clone() {
        let mut rows = prog.rows();
        drain!(mon, "LineRows::next_row(unit)", total, false, rows.next_row().map(|o| o.map(|(_, r)| r.address())), |_a| {});
    }
}

fn macro_entry<R: Reader<Offset = usize>>(e: &gimli::MacroEntry<R>, uref: &gimli::UnitRef<'_, R>) {
    match e {
        gimli::MacroEntry::Define { text: name, .. } | gimli::MacroEntry::Undef { name, .. } => {
            let _ = name.string(*uref).map(|s| s.len());
        }
        _ => {}
    }
}

/// Everything on `gimli::Dwarf`: units, attribute helpers, list resolution, strings.
pub fn dwarf<'a, M: Mk<'a>>(m: &M, s: &'a Secs, p: &P, mon: &mut Mon) {
    let dwarf = load_dwarf(m, s, p);
    let total = s.total_len();
    {
        let mut it = dwarf.units();
        let mut k = 0usize;
        drain!(mon, "Dwarf::units", total, false, it.next(), |h| {
            k += 1;
            if k <= MAX_UNITS_DEEP {
                let _ = dwarf.abbreviations(&h).map(|_| ());
                match dwarf.unit(h) {
                    Ok(unit) => unit_deep(&dwarf, &unit, total, p, mon),
                    Err(_) => mon.errs += 1,
                }
            }
        });
    }
    {
        let mut it = dwarf.type_units();
        let mut k = 0usize;
        drain!(mon, "Dwarf::type_units", total, false, it.next(), |h| {
            k += 1;
            if k <= MAX_UNITS_DEEP {
                match dwarf.unit(h) {
                    Ok(unit) => unit_deep(&dwarf, &unit, total, p, mon),
                    Err(_) => mon.errs += 1,
                }
            }
        });
    }
    for off in [0usize, 1, 3, total, usize::MAX] {
        let _ = dwarf.unit_header(gimli::DebugInfoOffset(off)).map(|h| h.version());
        let _ = dwarf.string(gimli::DebugStrOffset(off)).map(|s| s.len());
        let _ = dwarf.line_string(gimli::DebugLineStrOffset(off)).map(|s| s.len());
        let _ = dwarf.sup_string(gimli::DebugStrOffset(off)).map(|s| s.len());
    }
    // abbreviation cache strategies
    for strat in [gimli::AbbreviationsCacheStrategy::Duplicates, gimli::AbbreviationsCacheStrategy::All] {
        let mut d2 = load_dwarf(m, s, p);
        d2.populate_abbreviations_cache(strat);
        let mut it = d2.units();
        drain!(mon, "Dwarf::units(cache)", total, false, it.next(), |h| {
            let _ = d2.abbreviations(&h).map(|_| ());
        });
    }
    // make_dwo plumbing
    {
        let parent = load_dwarf(m, s, p);
        let mut dwo = load_dwarf(m, s, p);
        dwo.make_dwo(&parent);
        let mut it = dwo.units();
        let mut k = 0;
        drain!(mon, "Dwarf::units(dwo)", total, false, it.next(), |h| {
            k += 1;
            if k <= 4 {
                if let Ok(mut unit) = dwo.unit(h) {
                    let mut pit = parent.units();
                    if let Ok(Some(ph)) = pit.next() {
                        if let Ok(pu) = parent.unit(ph) {
                            unit.copy_relocated_attributes(&pu);
                        }
                    }
                    unit_deep(&dwo, &unit, total, p, mon);
                }
            }
        });
    }
}

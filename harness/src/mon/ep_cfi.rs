//! C01 entry points: `.debug_frame`, `.eh_frame`, `.eh_frame_hdr`, unwind tables.

use super::entries::{drain, Mk, Mon, Secs, P};
use crate::rt::Rng;
use gimli::read::{Reader, ReaderOffset, UnwindSection};
use gimli::{
    BaseAddresses, CieOrFde, Register, RegisterRule, SectionId, UnwindContext, UnwindContextStorage,
    UnwindTableRow,
};

pub struct SmallStore;
impl<T: ReaderOffset> UnwindContextStorage<T> for SmallStore {
    type Rules = [(Register, RegisterRule<T>); 3];
    type Stack = [UnwindTableRow<T, Self>; 2];
}

pub struct VecStore;
impl<T: ReaderOffset> UnwindContextStorage<T> for VecStore {
    type Rules = [(Register, RegisterRule<T>); 8];
    type Stack = Vec<UnwindTableRow<T, Self>>;
}

fn bases(p: &P, k: u64) -> BaseAddresses {
    let mut b = BaseAddresses::default();
    if k & 1 != 0 {
        b = b.set_eh_frame(0x1000);
    }
    if k & 2 != 0 {
        b = b.set_text(0x2000);
    }
    if k & 4 != 0 {
        b = b.set_got(0x3000);
    }
    if k & 8 != 0 {
        b = b.set_eh_frame_hdr(0x800);
    }
    b
}

fn probes(p: &P, fde_addrs: &[(u64, u64)]) -> Vec<u64> {
    let mut v = vec![0u64, 1, p.enc.addr_mask(), p.enc.addr_mask().wrapping_sub(1), 0x1000, 0x2000, u64::MAX];
    for (a, l) in fde_addrs.iter().take(16) {
        v.extend_from_slice(&[a.wrapping_sub(1), *a, a.wrapping_add(1), a.wrapping_add(*l).wrapping_sub(1), a.wrapping_add(*l)]);
    }
    v
}

fn rows_with<R, Sec, S>(fde: &gimli::FrameDescriptionEntry<R>, sec: &Sec, b: &BaseAddresses, ctx: &mut UnwindContext<usize, S>, len: usize, name: &str, mon: &mut Mon)
where
    R: Reader<Offset = usize>,
    Sec: UnwindSection<R>,
    S: UnwindContextStorage<usize>,
{
    match fde.rows(sec, b, ctx) {
        Ok(mut table) => {
            drain!(
                mon,
                name,
                len,
                false,
                table.next_row().map(|o| o.map(|row| {
                    let _ = (row.start_address(), row.end_address(), row.saved_args_size(), row.cfa().clone());
                    let mut n = 0;
                    for (reg, rule) in row.registers() {
                        n += 1;
                        let _ = (reg, rule);
                    }
                    let _ = row.register(Register(0));
                    let _ = row.register(Register(u16::MAX));
                    let _ = row.contains(0);
                    n
                })),
                |_n| {}
            );
        }
        Err(_) => mon.errs += 1,
    }
}

fn section<'a, R, Sec>(sec: &Sec, len: usize, p: &P, mon: &mut Mon, secname: &str)
where
    R: Reader<Offset = usize>,
    Sec: UnwindSection<R> + Clone,
    Sec::Offset: gimli::UnwindOffset<usize>,
{
    let mut fde_addrs: Vec<(u64, u64)> = vec![];
    for bk in [0u64, 15] {
        let b = bases(p, bk);
        let mut ctx_heap = UnwindContext::new();
        let mut ctx_small: UnwindContext<usize, SmallStore> = UnwindContext::new_in();
        let mut ctx_vec: UnwindContext<usize, VecStore> = UnwindContext::new_in();
        let mut entries = sec.entries(&b);
        let mut k = 0u64;
        drain!(mon, &format!("CfiEntriesIter::next({secname})"), len, false, entries.next(), |e| {
            k += 1;
            match e {
                CieOrFde::Cie(cie) => {
                    cie_access(&cie, sec, &b, len, mon);
                }
                CieOrFde::Fde(partial) => {
                    let _ = (partial.offset(), partial.entry_len());
                    let _ = partial.cie_offset();
                    match partial.parse(Sec::cie_from_offset) {
                        Ok(fde) => {
                            let _ = (
                                fde.offset(),
                                fde.entry_len(),
                                fde.initial_address(),
                                fde.end_address(),
                                fde.len(),
                                fde.contains(p.seed),
                                fde.lsda(),
                                fde.is_signal_trampoline(),
                                fde.personality(),
                            );
                            cie_access(fde.cie(), sec, &b, len, mon);
                            fde_addrs.push((fde.initial_address(), fde.len()));
                            let mut it = fde.instructions(sec, &b);
                            drain!(mon, "CallFrameInstructionIter::next(fde)", len, false, it.next(), |_i| {});
                            if k <= 200 {
                                rows_with(&fde, sec, &b, &mut ctx_heap, len, "UnwindTable::next_row(heap)", mon);
                                rows_with(&fde, sec, &b, &mut ctx_small, len, "UnwindTable::next_row(small)", mon);
                                rows_with(&fde, sec, &b, &mut ctx_vec, len, "UnwindTable::next_row(vec)", mon);
                                for a in [fde.initial_address(), fde.end_address().wrapping_sub(1), fde.end_address()] {
                                    let _ = fde.unwind_info_for_address(sec, &b, &mut ctx_heap, a).map(|r| r.start_address());
                                }
                            }
                        }
                        Err(_) => mon.errs += 1,
                    }
                }
            }
        });
    }
    // positioned parses at many offsets
    let b = bases(p, 15);
    let step = (len / 48).max(1);
    let mut off = 0usize;
    while off <= len + 1 {
        if !mon.tick() {
            break;
        }
        let o: Sec::Offset = off.into();
        let _ = sec.cie_from_offset(&b, o).map(|c| c.version());
        let _ = sec.partial_fde_from_offset(&b, o).map(|f| f.entry_len());
        let _ = sec.fde_from_offset(&b, o, Sec::cie_from_offset).map(|f| f.initial_address());
        off += step;
    }
    let o: Sec::Offset = usize::MAX.into();
    let _ = sec.cie_from_offset(&b, o).map(|c| c.version());
    // lookups
    let mut ctx = UnwindContext::new();
    for a in probes(p, &fde_addrs) {
        if !mon.tick() {
            break;
        }
        let _ = sec.fde_for_address(&b, a, Sec::cie_from_offset).map(|f| f.initial_address());
        let _ = sec.unwind_info_for_address(&b, &mut ctx, a, Sec::cie_from_offset).map(|r| r.start_address());
    }
}

fn cie_access<R, Sec>(cie: &gimli::CommonInformationEntry<R>, sec: &Sec, b: &BaseAddresses, len: usize, mon: &mut Mon)
where
    R: Reader<Offset = usize>,
    Sec: UnwindSection<R>,
{
    let _ = (
        cie.offset(),
        cie.encoding(),
        cie.address_size(),
        cie.entry_len(),
        cie.version(),
        cie.augmentation().is_some(),
        cie.has_lsda(),
        cie.lsda_encoding(),
        cie.personality_with_encoding(),
        cie.personality(),
        cie.fde_address_encoding(),
        cie.is_signal_trampoline(),
        cie.code_alignment_factor(),
        cie.data_alignment_factor(),
        cie.return_address_register(),
    );
    let mut it = cie.instructions(sec, b);
    drain!(mon, "CallFrameInstructionIter::next(cie)", len, false, it.next(), |_i| {});
}

pub fn debug_frame<'a, M: Mk<'a>>(m: &M, s: &'a Secs, p: &P, mon: &mut Mon) {
    let bytes = s.get(SectionId::DebugFrame);
    let mut sec = gimli::DebugFrame::from(m.mk(bytes));
    sec.set_address_size(p.enc.addr);
    if p.aarch64 {
        sec.set_vendor(gimli::Vendor::AArch64);
    }
    section(&sec, bytes.len(), p, mon, "debug_frame");
}

pub fn eh_frame<'a, M: Mk<'a>>(m: &M, s: &'a Secs, p: &P, mon: &mut Mon) {
    let bytes = s.get(SectionId::EhFrame);
    let mut sec = gimli::EhFrame::from(m.mk(bytes));
    sec.set_address_size(p.enc.addr);
    if p.aarch64 {
        sec.set_vendor(gimli::Vendor::AArch64);
    }
    section(&sec, bytes.len(), p, mon, "eh_frame");
}

pub fn eh_frame_hdr<'a, M: Mk<'a>>(m: &M, s: &'a Secs, p: &P, mon: &mut Mon) {
    let hbytes = s.get(SectionId::EhFrameHdr);
    let fbytes = s.get(SectionId::EhFrame);
    let hdr = gimli::EhFrameHdr::from(m.mk(hbytes));
    let mut frame = gimli::EhFrame::from(m.mk(fbytes));
    frame.set_address_size(p.enc.addr);
    let len = hbytes.len();
    for bk in [0u64, 15, 9] {
        let b = bases(p, bk);
        let Ok(parsed) = hdr.parse(&b, p.enc.addr) else {
            mon.errs += 1;
            continue;
        };
        let _ = parsed.eh_frame_ptr();
        let Some(table) = parsed.table() else {
            continue;
        };
        {
            let mut it = table.iter(&b);
            drain!(mon, "EhHdrTableIter::next", len, false, it.next(), |e| {
                let _ = table.pointer_to_offset(e.1);
                let _ = table.pointer_to_offset(e.0);
            });
        }
        for n in [0usize, 1, 2, 7, 1000, usize::MAX / 16, usize::MAX] {
            let mut it = table.iter(&b);
            let _ = it.nth(n);
            let _ = it.next();
        }
        let mut ctx = UnwindContext::new();
        for a in probes(p, &[(0x1000, 0x10), (0x2000, 0x20)]) {
            if !mon.tick() {
                break;
            }
            if let Ok(ptr) = table.lookup(a, &b) {
                let _ = table.pointer_to_offset(ptr);
            }
            let _ = table.fde_for_address(&frame, &b, a, gimli::EhFrame::cie_from_offset).map(|f| f.initial_address());
            let _ = table
                .unwind_info_for_address(&frame, &b, &mut ctx, a, gimli::EhFrame::cie_from_offset)
                .map(|r| r.start_address());
        }
        for ptr in [gimli::Pointer::Direct(0), gimli::Pointer::Direct(1), gimli::Pointer::Direct(u64::MAX), gimli::Pointer::Indirect(0x1000)] {
            let _ = table.pointer_to_offset(ptr);
        }
    }
}

//! (stub)

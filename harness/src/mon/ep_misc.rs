//! C01 entry points: line programs, aranges, addr, str/str_offsets, range/location lists,
//! pubnames/pubtypes, .debug_names, cu/tu index + package, macros.

use super::entries::{drain, Mk, Mon, Secs, P};
use crate::rt::EXTREMES;
use gimli::read::{Reader, ReaderOffset};
use gimli::SectionId;

fn offsets(len: usize, n: usize) -> Vec<usize> {
    let mut v = vec![0usize, 1, 2, 3, 4, 8, 12, len.saturating_sub(1), len, len.wrapping_add(1), usize::MAX];
    let step = (len / n.max(1)).max(1);
    let mut o = 0;
    while o < len {
        v.push(o);
        o += step;
    }
    v.sort();
    v.dedup();
    v
}

fn line_header<R: Reader<Offset = usize>>(h: &gimli::LineProgramHeader<R>, mon: &mut Mon) {
    let _ = (
        h.offset(),
        h.unit_length(),
        h.encoding(),
        h.version(),
        h.header_length(),
        h.address_size(),
        h.format(),
        h.line_encoding(),
        h.minimum_instruction_length(),
        h.maximum_operations_per_instruction(),
        h.default_is_stmt(),
        h.line_base(),
        h.line_range(),
        h.opcode_base(),
        h.standard_opcode_lengths().len(),
        h.directory_entry_format().len(),
        h.include_directories().len(),
        h.file_name_entry_format().len(),
        h.file_has_timestamp(),
        h.file_has_size(),
        h.file_has_md5(),
        h.file_has_source(),
        h.file_names().len(),
        h.raw_program_buf().len(),
    );
    for i in [0u64, 1, 2, 3, 255, 256, u32::MAX as u64, u64::MAX] {
        let _ = h.directory(i);
        if let Some(f) = h.file(i) {
            let _ = (f.path_name(), f.directory_index(), f.directory(h), f.timestamp(), f.size(), f.md5(), f.source());
        }
    }
    for f in h.file_names().iter().take(64) {
        let _ = (f.path_name(), f.directory_index(), f.directory(h), f.timestamp(), f.size(), f.md5(), f.source());
        mon.oks += 1;
    }
}

/// `.debug_line`: header, instructions, rows, sequences, resume.
pub fn line<'a, M: Mk<'a>>(m: &M, s: &'a Secs, p: &P, mon: &mut Mon) {
    let bytes = s.get(SectionId::DebugLine);
    let debug_line = gimli::DebugLine::from(m.mk(bytes));
    let len = bytes.len();
    let comp_dir = m.mk(&b"/comp/dir"[..]);
    let comp_name = m.mk(&b"name.c"[..]);
    for (k, off) in offsets(len, 24).into_iter().enumerate() {
        if !mon.tick() {
            break;
        }
        let with_names = k % 2 == 0;
        let prog = match debug_line.program(
            gimli::DebugLineOffset(off),
            p.enc.addr,
            if with_names { Some(comp_dir.clone()) } else { None },
            if with_names { Some(comp_name.clone()) } else { None },
        ) {
            Ok(x) => x,
            Err(_) => {
                mon.errs += 1;
                continue;
            }
        };
        line_header(prog.header(), mon);
        // instructions (documented sticky)
        {
            let h = prog.header().clone();
            let mut it = h.instructions();
            drain!(mon, "LineInstructions::next_instruction", len, true, it.next_instruction(&h), |_i| {});
        }
        // rows
        {
            let mut rows = prog.clone().rows();
            drain!(
                mon,
                "LineRows::next_row",
                len,
                false,
                rows.next_row().map(|o| o.map(|(h, r)| {
                    let _ = (
                        r.address(),
                        r.op_index(),
                        r.file_index(),
                        r.file(h).is_some(),
                        r.line(),
                        r.column(),
                        r.is_stmt(),
                        r.basic_block(),
                        r.end_sequence(),
                        r.prologue_end(),
                        r.epilogue_begin(),
                        r.isa(),
                        r.discriminator(),
                    );
                })),
                |_x| {}
            );
        }
        // sequences + resume
        if let Ok((complete, seqs)) = prog.clone().sequences() {
            let _ = complete.header().version();
            for seq in seqs.iter().take(40) {
                let _ = (seq.start, seq.end);
                let mut rows = complete.resume_from(seq);
                drain!(mon, "LineRows::next_row(resume)", len, false, rows.next_row().map(|o| o.map(|(_, r)| r.address())), |_a| {});
            }
        } else {
            mon.errs += 1;
        }
    }
}

/// `.debug_aranges`
pub fn aranges<'a, M: Mk<'a>>(m: &M, s: &'a Secs, p: &P, mon: &mut Mon) {
    let bytes = s.get(SectionId::DebugAranges);
    let len = bytes.len();
    let sec = gimli::DebugAranges::from(m.mk(bytes));
    let mut hs = sec.headers();
    drain!(mon, "ArangeHeaderIter::next", len, false, hs.next(), |h| {
        let _ = (h.offset(), h.length(), h.encoding(), h.debug_info_offset());
        let mut es = h.entries();
        drain!(mon, "ArangeEntryIter::next", len, true, es.next(), |e| {
            let _ = (e.address(), e.length(), e.range());
        });
        let mut es = h.entries();
        drain!(mon, "ArangeEntryIter::next_raw", len, false, es.next_raw(), |e| {
            let _ = es.convert_raw(e);
        });
    });
    for off in offsets(len, 16) {
        let _ = sec.header(gimli::DebugArangesOffset(off)).map(|h| h.length());
    }
}

/// `.debug_addr`, `.debug_str`, `.debug_line_str`, `.debug_str_offsets`
pub fn tables<'a, M: Mk<'a>>(m: &M, s: &'a Secs, p: &P, mon: &mut Mon) {
    let abytes = s.get(SectionId::DebugAddr);
    let addr = gimli::DebugAddr::from(m.mk(abytes));
    let mut hs = addr.headers();
    drain!(mon, "AddrHeaderIter::next", abytes.len(), false, hs.next(), |h| {
        let _ = (h.offset(), h.length(), h.encoding());
        let mut es = h.entries();
        drain!(mon, "AddrEntryIter::next", abytes.len(), true, es.next(), |_a| {});
    });
    let so = gimli::DebugStrOffsets::from(m.mk(s.get(SectionId::DebugStrOffsets)));
    let st = gimli::DebugStr::from(m.mk(s.get(SectionId::DebugStr)));
    let ls = gimli::DebugLineStr::from(m.mk(s.get(SectionId::DebugLineStr)));
    for (i, &e) in EXTREMES.iter().enumerate() {
        if !mon.tick() {
            break;
        }
        let base = EXTREMES[(i * 7 + 3) % EXTREMES.len()];
        for (b, x) in [(0usize, e as usize), (8, e as usize), (base as usize, e as usize), (e as usize, 0), (e as usize, 1)] {
            for asz in [1u8, 2, 4, 8] {
                let _ = addr.get_address(asz, gimli::DebugAddrBase(b), gimli::DebugAddrIndex(x));
            }
            for f in [gimli::Format::Dwarf32, gimli::Format::Dwarf64] {
                let _ = so.get_str_offset(f, gimli::DebugStrOffsetsBase(b), gimli::DebugStrOffsetsIndex(x));
            }
        }
        let _ = st.get_str(gimli::DebugStrOffset(e as usize)).map(|s| s.len());
        let _ = ls.get_str(gimli::DebugLineStrOffset(e as usize)).map(|s| s.len());
    }
    for f in [gimli::Format::Dwarf32, gimli::Format::Dwarf64] {
        for v in 2..=5u16 {
            let enc = gimli::Encoding { format: f, version: v, address_size: p.enc.addr };
            for ft in [gimli::DwarfFileType::Main, gimli::DwarfFileType::Dwo] {
                let _ = gimli::DebugStrOffsetsBase::<usize>::default_for_encoding_and_file(enc, ft);
                let _ = gimli::DebugRngListsBase::<usize>::default_for_encoding_and_file(enc, ft);
                let _ = gimli::DebugLocListsBase::<usize>::default_for_encoding_and_file(enc, ft);
            }
        }
    }
}

/// Range and location lists, raw and cooked, at arbitrary offsets; index lookups.
pub fn lists<'a, M: Mk<'a>>(m: &M, s: &'a Secs, p: &P, mon: &mut Mon) {
    let ranges = gimli::RangeLists::new(
        gimli::DebugRanges::from(m.mk(s.get(SectionId::DebugRanges))),
        gimli::DebugRngLists::from(m.mk(s.get(SectionId::DebugRngLists))),
    );
    let locs = gimli::LocationLists::new(
        gimli::DebugLoc::from(m.mk(s.get(SectionId::DebugLoc))),
        gimli::DebugLocLists::from(m.mk(s.get(SectionId::DebugLocLists))),
    );
    let addr = gimli::DebugAddr::from(m.mk(s.get(SectionId::DebugAddr)));
    let enc = p.enc.encoding();
    let total = s.get(SectionId::DebugRanges).len()
        + s.get(SectionId::DebugRngLists).len()
        + s.get(SectionId::DebugLoc).len()
        + s.get(SectionId::DebugLocLists).len()
        + s.get(SectionId::DebugAddr).len();
    let rlen = if enc.version <= 4 { s.get(SectionId::DebugRanges).len() } else { s.get(SectionId::DebugRngLists).len() };
    let llen = if enc.version <= 4 { s.get(SectionId::DebugLoc).len() } else { s.get(SectionId::DebugLocLists).len() };
    let bases = [0u64, 0x1000, p.enc.addr_mask() - 1, p.enc.addr_mask()];
    for (k, off) in offsets(rlen, 20).into_iter().enumerate() {
        if !mon.tick() {
            break;
        }
        let base = bases[k % bases.len()];
        if let Ok(mut it) = ranges.raw_ranges(gimli::RangeListsOffset(off), enc) {
            drain!(mon, "RawRngListIter::next", total, false, it.next(), |_e| {});
        }
        if let Ok(mut it) = ranges.ranges(gimli::RangeListsOffset(off), enc, base, &addr, gimli::DebugAddrBase(if k % 3 == 0 { 8 } else { 0 })) {
            drain!(mon, "RngListIter::next", total, false, it.next(), |r| {
                let _ = (r.begin, r.end);
            });
        }
        if let Ok(mut it) = ranges.ranges(gimli::RangeListsOffset(off), enc, base, &addr, gimli::DebugAddrBase(0)) {
            drain!(mon, "RngListIter::next_raw", total, false, it.next_raw(), |e| {
                let _ = it.convert_raw(e);
            });
        }
    }
    for (k, off) in offsets(llen, 20).into_iter().enumerate() {
        if !mon.tick() {
            break;
        }
        let base = bases[k % bases.len()];
        if let Ok(mut it) = locs.raw_locations(gimli::LocationListsOffset(off), enc) {
            drain!(mon, "RawLocListIter::next", total, false, it.next(), |_e| {});
        }
        if let Ok(mut it) = locs.raw_locations_dwo(gimli::LocationListsOffset(off), enc) {
            drain!(mon, "RawLocListIter::next(dwo)", total, false, it.next(), |_e| {});
        }
        if let Ok(mut it) = locs.locations(gimli::LocationListsOffset(off), enc, base, &addr, gimli::DebugAddrBase(if k % 3 == 0 { 8 } else { 0 })) {
            drain!(mon, "LocListIter::next", total, false, it.next(), |l| {
                let _ = (l.range.begin, l.range.end, l.data.0.len());
            });
        }
        if let Ok(mut it) = locs.locations_dwo(gimli::LocationListsOffset(off), enc, base, &addr, gimli::DebugAddrBase(0)) {
            drain!(mon, "LocListIter::next(dwo)", total, false, it.next(), |_l| {});
        }
        if let Ok(mut it) = locs.locations(gimli::LocationListsOffset(off), enc, base, &addr, gimli::DebugAddrBase(0)) {
            drain!(mon, "LocListIter::next_raw", total, false, it.next_raw(), |e| {
                let _ = it.convert_raw(e);
            });
        }
    }
    for (i, &e) in EXTREMES.iter().enumerate() {
        let base = EXTREMES[(i * 5 + 1) % EXTREMES.len()];
        for (b, x) in [(0usize, e as usize), (12, e as usize), (base as usize, e as usize), (e as usize, 0), (e as usize, 1)] {
            let _ = ranges.get_offset(enc, gimli::DebugRngListsBase(b), gimli::DebugRngListsIndex(x));
            let _ = locs.get_offset(enc, gimli::DebugLocListsBase(b), gimli::DebugLocListsIndex(x));
        }
    }
}

/// `.debug_pubnames` / `.debug_pubtypes`
pub fn pubs<'a, M: Mk<'a>>(m: &M, s: &'a Secs, p: &P, mon: &mut Mon) {
    let b1 = s.get(SectionId::DebugPubNames);
    let pn = gimli::DebugPubNames::from(m.mk(b1));
    let mut it = pn.items();
    drain!(mon, "PubNamesEntryIter::next", b1.len(), true, it.next(), |e| {
        let _ = (e.name().len(), e.unit_header_offset(), e.die_offset());
    });
    let b2 = s.get(SectionId::DebugPubTypes);
    let pt = gimli::DebugPubTypes::from(m.mk(b2));
    let mut it = pt.items();
    drain!(mon, "PubTypesEntryIter::next", b2.len(), true, it.next(), |e| {
        let _ = (e.name().len(), e.unit_header_offset(), e.die_offset());
    });
}

/// `.debug_names`
pub fn names<'a, M: Mk<'a>>(m: &M, s: &'a Secs, p: &P, mon: &mut Mon) {
    let bytes = s.get(SectionId::DebugNames);
    let len = bytes.len();
    let sec = gimli::DebugNames::from(m.mk(bytes));
    let debug_str = gimli::DebugStr::from(m.mk(s.get(SectionId::DebugStr)));
    let mut hs = sec.headers();
    drain!(mon, "NameIndexHeaderIter::next", len, false, hs.next(), |h| {
        let _ = (
            h.offset(),
            h.length(),
            h.format(),
            h.version(),
            h.compile_unit_count(),
            h.local_type_unit_count(),
            h.foreign_type_unit_count(),
            h.bucket_count(),
            h.name_count(),
            h.abbrev_table_size(),
            h.augmentation_string().map(|s| s.len()),
        );
        if let Ok(idx) = h.index() {
            name_index(&idx, &debug_str, len, mon);
        } else {
            mon.errs += 1;
        }
    });
}

fn name_index<R: Reader<Offset = usize>>(idx: &gimli::NameIndex<R>, debug_str: &gimli::DebugStr<R>, len: usize, mon: &mut Mon) {
    let _ = (
        idx.compile_unit_count(),
        idx.local_type_unit_count(),
        idx.foreign_type_unit_count(),
        idx.type_unit_count(),
        idx.has_hash_table(),
        idx.bucket_count(),
        idx.name_count(),
        idx.default_compile_unit(),
    );
    for i in [0u32, 1, 2, 7, idx.compile_unit_count(), idx.type_unit_count(), u32::MAX - 1, u32::MAX] {
        let _ = idx.compile_unit(i);
        let _ = idx.local_type_unit(i);
        let _ = idx.foreign_type_unit(i);
        let _ = idx.type_unit(i);
        if let Ok(Some(mut b)) = idx.find_by_bucket(i) {
            drain!(mon, "NameBucketIter::next", len, false, b.next(), |_x| {});
        }
    }
    for h in [0u32, 5381, 0x7c9a_7f6a, u32::MAX] {
        if let Ok(mut it) = idx.find_by_hash(h) {
            drain!(mon, "NameHashIter::next", len, false, it.next(), |_x| {});
        }
    }
    for a in idx.abbreviations().abbreviations().iter().take(64) {
        let _ = (a.code(), a.tag());
        for at in a.attributes() {
            let _ = (at.name(), at.form());
        }
    }
    let _ = idx.abbreviations().get(1);
    let mut n = 0u64;
    for name in idx.names() {
        n += 1;
        if n > 2000 || !mon.tick() {
            break;
        }
        let _ = idx.name_string_offset(name);
        let _ = idx.name_string(name, debug_str).map(|s| s.len());
        if let Ok(mut es) = idx.name_entries(name) {
            drain!(mon, "NameEntryIter::next", len, false, es.next(), |e| {
                let _ = (e.compile_unit(idx), e.type_unit(idx), e.die_offset(), e.parent(), e.type_hash());
                if let Ok(Some(Some(poff))) = e.parent() {
                    let _ = idx.name_entry(poff).map(|pe| pe.die_offset());
                }
            });
        }
    }
    for off in [0usize, 1, len, usize::MAX] {
        let _ = idx.name_entry(gimli::NameEntryOffset(off)).map(|e| e.die_offset());
    }
}

/// `.debug_cu_index` / `.debug_tu_index` and `DwarfPackage`.
pub fn index<'a, M: Mk<'a>>(m: &M, s: &'a Secs, p: &P, mon: &mut Mon) {
    for (id, is_cu) in [(SectionId::DebugCuIndex, true), (SectionId::DebugTuIndex, false)] {
        let bytes = s.get(id);
        let r = if is_cu {
            gimli::DebugCuIndex::from(m.mk(bytes)).index()
        } else {
            gimli::DebugTuIndex::from(m.mk(bytes)).index()
        };
        let Ok(idx) = r else {
            mon.errs += 1;
            continue;
        };
        let _ = (idx.version(), idx.section_count(), idx.unit_count(), idx.slot_count());
        for &k in EXTREMES {
            if !mon.tick() {
                break;
            }
            let _ = idx.find(k);
            if let Ok(it) = idx.sections(k as u32) {
                let mut n = 0;
                for sec in it {
                    n += 1;
                    if n > 64 {
                        mon.problem("nonterm|UnitIndexSectionIterator", "more than 64 sections yielded".into());
                        break;
                    }
                    let _ = (sec.section, sec.offset, sec.size, sec.section.section_id(), sec.section.dwo_name());
                }
            }
        }
    }
    // package
    let empty = m.mk(&[][..]);
    let pkg: Result<gimli::DwarfPackage<M::R>, gimli::Error> = gimli::DwarfPackage::load(|id| Ok(m.mk(s.get(id))), empty);
    let Ok(pkg) = pkg else {
        mon.errs += 1;
        return;
    };
    let parent: gimli::Dwarf<M::R> = gimli::Dwarf::load(|id| Ok::<_, ()>(m.mk(s.get(id)))).unwrap();
    for &k in EXTREMES.iter().take(12) {
        let _ = pkg.find_cu(gimli::DwoId(k), &parent).map(|d| d.is_some());
        let _ = pkg.find_tu(gimli::DebugTypeSignature(k), &parent).map(|d| d.is_some());
        if let Ok(d) = pkg.cu_sections(k as u32, &parent) {
            let mut it = d.units();
            drain!(mon, "Dwarf::units(package)", s.total_len(), false, it.next(), |h| {
                let _ = d.unit(h).map(|_| ());
            });
        }
        let _ = pkg.tu_sections(k as u32, &parent).map(|_| ());
    }
}

/// `.debug_macinfo` / `.debug_macro` at arbitrary offsets.
pub fn macros<'a, M: Mk<'a>>(m: &M, s: &'a Secs, p: &P, mon: &mut Mon) {
    let b1 = s.get(SectionId::DebugMacinfo);
    let mi = gimli::DebugMacinfo::from(m.mk(b1));
    for off in offsets(b1.len(), 16) {
        if let Ok(mut it) = mi.get_macinfo(gimli::DebugMacinfoOffset(off)) {
            drain!(mon, "MacroIter::next(macinfo)", b1.len(), false, it.next(), |_e| {});
        }
    }
    let b2 = s.get(SectionId::DebugMacro);
    let ma = gimli::DebugMacro::from(m.mk(b2));
    for off in offsets(b2.len(), 16) {
        if let Ok(mut it) = ma.get_macros(gimli::DebugMacroOffset(off)) {
            drain!(mon, "MacroIter::next(macro)", b2.len(), false, it.next(), |_e| {});
        }
    }
}

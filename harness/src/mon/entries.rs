//! C01 entry-point registry: every public reading / lookup / unwinding / evaluation /
//! conversion API of gimli, driven to completion over arbitrary section bytes.
//!
//! Each entry point takes the sections (`Secs`), parameters (`P`) and a monitor (`Mon`).
//! It must never be able to fail by itself: every `Result` is swallowed (errors are fine
//! for C01), only panics (captured by the caller), non-termination (step bound in `Mon`)
//! and "iterator yields after an error although documented to stop" are refuting events.
//!
//! Entry points are generic over the reader factory `Mk`, so that the same code runs over
//! `EndianSlice` and over the failure-injecting `FaultSlice`.

use crate::asm::Enc;
use gimli::read::{Reader, ReaderOffset, UnwindSection};
use gimli::{EndianSlice, RunTimeEndian, SectionId};
use std::cell::Cell;
use std::collections::HashMap;
use std::rc::Rc;

// ---------------------------------------------------------------- sections

#[derive(Clone, Debug, Default)]
pub struct Secs {
    pub map: HashMap<SectionId, Vec<u8>>,
    /// raw expression bytes for the expression entry points
    pub expr: Vec<u8>,
}

static EMPTY: [u8; 0] = [];

impl Secs {
    pub fn get(&self, id: SectionId) -> &[u8] {
        self.map.get(&id).map(|v| &v[..]).unwrap_or(&EMPTY)
    }
    pub fn set(&mut self, id: SectionId, b: Vec<u8>) {
        self.map.insert(id, b);
    }
    pub fn total_len(&self) -> usize {
        self.map.values().map(|v| v.len()).sum::<usize>() + self.expr.len()
    }
    pub fn digest(&self) -> u64 {
        let mut keys: Vec<_> = self.map.keys().collect();
        keys.sort_by_key(|k| k.name());
        let mut h = crate::rt::fnv(&self.expr);
        for k in keys {
            h = crate::rt::fnv_add(h, k.name().as_bytes());
            h = crate::rt::fnv_add(h, &self.map[k]);
        }
        h
    }
    pub fn json(&self) -> serde_json::Value {
        let mut m = serde_json::Map::new();
        let mut keys: Vec<_> = self.map.keys().collect();
        keys.sort_by_key(|k| k.name());
        for k in keys {
            if !self.map[k].is_empty() {
                m.insert(k.name().to_string(), serde_json::json!(crate::rt::hex(&self.map[k])));
            }
        }
        if !self.expr.is_empty() {
            m.insert("expr".into(), serde_json::json!(crate::rt::hex(&self.expr)));
        }
        serde_json::Value::Object(m)
    }
}

/// Parameters that come from the caller in real use (never from the untrusted bytes).
#[derive(Clone, Copy, Debug)]
pub struct P {
    pub enc: Enc,
    pub dwo: bool,
    pub aarch64: bool,
    /// seed for resume answers / probe choices
    pub seed: u64,
}

// ---------------------------------------------------------------- monitor

#[derive(Debug, Default)]
pub struct Mon {
    pub steps: u64,
    pub oks: u64,
    pub errs: u64,
    /// (signature, description)
    pub problems: Vec<(String, String)>,
    /// total step budget of one case; exhausting it is *inconclusive*, not a violation
    pub budget: u64,
    pub budget_exhausted: bool,
}

impl Mon {
    pub fn new(budget: u64) -> Mon {
        Mon { budget, ..Default::default() }
    }
    pub fn problem(&mut self, sig: &str, what: String) {
        if self.problems.len() < 8 && !self.problems.iter().any(|p| p.0 == sig) {
            self.problems.push((sig.to_string(), what));
        }
    }
    /// Spend one step of the global budget; false when exhausted.
    #[inline]
    pub fn tick(&mut self) -> bool {
        self.steps += 1;
        if self.steps > self.budget {
            self.budget_exhausted = true;
            return false;
        }
        true
    }
}

/// Drive a fallible lazy iterator to `Ok(None)`, ignoring errors, counting steps against the
/// bound `4 * len + 64`.  `sticky`: the iterator is documented to return `Ok(None)` forever
/// after an error.
macro_rules! drain {
    ($mon:expr, $name:expr, $len:expr, $sticky:expr, $next:expr, |$x:pat_param| $body:block) => {{
        let bound: u64 = 4 * ($len as u64) + 64;
        let mut n: u64 = 0;
        let mut errored = false;
        loop {
            n += 1;
            if n > bound {
                $mon.problem(
                    &format!("nonterm|{}", $name),
                    format!("{}: still yielding after {} calls on {} input bytes (bound 4*len+64)", $name, n - 1, $len),
                );
                break;
            }
            if !$mon.tick() {
                break;
            }
            match $next {
                Ok(Some($x)) => {
                    if errored && $sticky {
                        $mon.problem(
                            &format!("sticky|{}", $name),
                            format!("{}: yielded an item after returning Err (documented: all subsequent calls return Ok(None))", $name),
                        );
                        break;
                    }
                    $mon.oks += 1;
                    $body
                }
                Ok(None) => break,
                Err(_) => {
                    $mon.errs += 1;
                    if errored && $sticky {
                        $mon.problem(
                            &format!("sticky|{}", $name),
                            format!("{}: returned Err again after Err (documented: all subsequent calls return Ok(None))", $name),
                        );
                        break;
                    }
                    errored = true;
                }
            }
        }
    }};
}
pub(crate) use drain;

// ---------------------------------------------------------------- reader factories

pub trait Mk<'a>: Clone {
    type R: Reader<Offset = usize, Endian = RunTimeEndian> + 'a;
    fn mk(&self, b: &'a [u8]) -> Self::R;
    fn endian(&self) -> RunTimeEndian;
}

#[derive(Clone)]
pub struct PlainMk(pub RunTimeEndian);

impl<'a> Mk<'a> for PlainMk {
    type R = EndianSlice<'a, RunTimeEndian>;
    fn mk(&self, b: &'a [u8]) -> Self::R {
        EndianSlice::new(b, self.0)
    }
    fn endian(&self) -> RunTimeEndian {
        self.0
    }
}

/// Shared state of a family of failure-injecting readers: an operation counter and the
/// index from which every fallible operation fails.
#[derive(Debug)]
pub struct FaultState {
    pub count: Cell<u64>,
    pub fail_from: Cell<u64>,
}

#[derive(Clone)]
pub struct FaultMk {
    pub endian: RunTimeEndian,
    pub state: Rc<FaultState>,
}

impl FaultMk {
    pub fn new(endian: RunTimeEndian, fail_from: u64) -> FaultMk {
        FaultMk { endian, state: Rc::new(FaultState { count: Cell::new(0), fail_from: Cell::new(fail_from) }) }
    }
}

impl<'a> Mk<'a> for FaultMk {
    type R = FaultSlice<'a>;
    fn mk(&self, b: &'a [u8]) -> Self::R {
        FaultSlice { inner: EndianSlice::new(b, self.endian), state: self.state.clone() }
    }
    fn endian(&self) -> RunTimeEndian {
        self.endian
    }
}

/// A reader over a slice whose fallible operations start failing at operation `fail_from`
/// (shared across all clones and sub-readers).
#[derive(Clone, Debug)]
pub struct FaultSlice<'a> {
    inner: EndianSlice<'a, RunTimeEndian>,
    state: Rc<FaultState>,
}

impl<'a> FaultSlice<'a> {
    #[inline]
    fn op(&self) -> gimli::Result<()> {
        let c = self.state.count.get();
        self.state.count.set(c + 1);
        if c >= self.state.fail_from.get() {
            Err(gimli::Error::Io)
        } else {
            Ok(())
        }
    }
}

impl<'a> Reader for FaultSlice<'a> {
    type Endian = RunTimeEndian;
    type Offset = usize;
    fn endian(&self) -> RunTimeEndian {
        self.inner.endian()
    }
    fn len(&self) -> usize {
        self.inner.len()
    }
    fn empty(&mut self) {
        self.inner.empty()
    }
    fn truncate(&mut self, len: usize) -> gimli::Result<()> {
        self.op()?;
        self.inner.truncate(len)
    }
    fn offset_from(&self, base: &Self) -> usize {
        Reader::offset_from(&self.inner, &base.inner)
    }
    fn offset_id(&self) -> gimli::ReaderOffsetId {
        self.inner.offset_id()
    }
    fn lookup_offset_id(&self, id: gimli::ReaderOffsetId) -> Option<usize> {
        self.inner.lookup_offset_id(id)
    }
    fn find(&self, byte: u8) -> gimli::Result<usize> {
        self.op()?;
        Reader::find(&self.inner, byte)
    }
    fn skip(&mut self, len: usize) -> gimli::Result<()> {
        self.op()?;
        self.inner.skip(len)
    }
    fn split(&mut self, len: usize) -> gimli::Result<Self> {
        self.op()?;
        let inner = self.inner.split(len)?;
        Ok(FaultSlice { inner, state: self.state.clone() })
    }
    fn to_slice(&self) -> gimli::Result<std::borrow::Cow<'_, [u8]>> {
        self.op()?;
        Reader::to_slice(&self.inner)
    }
    fn to_string(&self) -> gimli::Result<std::borrow::Cow<'_, str>> {
        self.op()?;
        Reader::to_string(&self.inner)
    }
    fn to_string_lossy(&self) -> gimli::Result<std::borrow::Cow<'_, str>> {
        self.op()?;
        Reader::to_string_lossy(&self.inner)
    }
    fn read_slice(&mut self, buf: &mut [u8]) -> gimli::Result<()> {
        self.op()?;
        self.inner.read_slice(buf)
    }
}

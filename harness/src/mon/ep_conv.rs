//! C01 entry points: read -> write converters, each followed by `write`.

use super::entries::{drain, Mk, Mon, Secs, P};
use gimli::read::{Reader, UnwindSection};
use gimli::write::{self, Address, EndianVec, Sections};
use gimli::{RunTimeEndian, SectionId};

fn load<'a, M: Mk<'a>>(m: &M, s: &'a Secs, p: &P) -> gimli::Dwarf<M::R> {
    let mut dwarf: gimli::Dwarf<M::R> = gimli::Dwarf::load(|id| Ok::<_, ()>(m.mk(s.get(id)))).unwrap();
    if p.dwo {
        dwarf.file_type = gimli::DwarfFileType::Dwo;
    }
    dwarf
}

fn addr_fn(kind: u64) -> impl Fn(u64) -> Option<Address> {
    move |a| match kind % 3 {
        0 => Some(Address::Constant(a)),
        1 => Some(Address::Symbol { symbol: (a % 7) as usize, addend: a as i64 }),
        _ => {
            if a % 5 == 0 {
                None
            } else {
                Some(Address::Constant(a))
            }
        }
    }
}

fn write_out(endian: RunTimeEndian, dwarf: &mut write::Dwarf, mon: &mut Mon) {
    let mut sections = Sections::new(EndianVec::new(endian));
    match dwarf.write(&mut sections) {
        Ok(()) => mon.oks += 1,
        Err(_) => mon.errs += 1,
    }
}

/// `write::Dwarf::from` + `write`.
pub fn dwarf_from<'a, M: Mk<'a>>(m: &M, s: &'a Secs, p: &P, mon: &mut Mon) {
    let dwarf = load(m, s, p);
    for kind in [0u64, 2] {
        let f = addr_fn(kind);
        match write::Dwarf::from(&dwarf, &f) {
            Ok(mut w) => write_out(m.endian(), &mut w, mon),
            Err(_) => mon.errs += 1,
        }
    }
}

/// Step-wise `convert` (all entries) and `convert_with_filter` (every entry required, and a
/// sparse subset), each followed by `write`.
pub fn dwarf_stepwise<'a, M: Mk<'a>>(m: &M, s: &'a Secs, p: &P, mon: &mut Mon) {
    let dwarf = load(m, s, p);
    let total = s.total_len();
    let f = addr_fn(0);
    // plain step-wise
    {
        let mut w = write::Dwarf::new();
        let ok = (|| -> write::ConvertResult<()> {
            let mut conv = w.convert(&dwarf)?;
            let mut n = 0u64;
            while let Some((mut unit, root)) = conv.read_unit()? {
                n += 1;
                if n > 4 * total as u64 + 64 {
                    break;
                }
                if n % 3 == 0 {
                    unit.skip();
                    continue;
                }
                unit.convert(root, &f)?;
            }
            Ok(())
        })();
        match ok {
            Ok(()) => write_out(m.endian(), &mut w, mon),
            Err(_) => mon.errs += 1,
        }
    }
    // filtered
    for mode in 0..2u64 {
        let mut w = write::Dwarf::new();
        let ok = (|| -> write::ConvertResult<()> {
            let mut filter = write::FilterUnitSection::new(&dwarf)?;
            let mut nu = 0u64;
            while let Some(mut unit) = filter.read_unit()? {
                nu += 1;
                if nu > 4 * total as u64 + 64 {
                    break;
                }
                let mut entry = unit.null_entry();
                let mut ne = 0u64;
                while unit.read_entry(&mut entry)? {
                    ne += 1;
                    if ne > 4 * total as u64 + 64 {
                        break;
                    }
                    if mode == 0 || (ne + p.seed) % 3 == 0 {
                        unit.require_entry(entry.offset);
                    }
                }
            }
            let mut conv = w.convert_with_filter(filter)?;
            while let Some((mut unit, root)) = conv.read_unit()? {
                unit.convert(root, &f)?;
            }
            Ok(())
        })();
        match ok {
            Ok(()) => write_out(m.endian(), &mut w, mon),
            Err(_) => mon.errs += 1,
        }
    }
}

/// `ConvertLineProgram` on programs found at a few offsets of `.debug_line`.
pub fn line_convert<'a, M: Mk<'a>>(m: &M, s: &'a Secs, p: &P, mon: &mut Mon) {
    let dwarf = load(m, s, p);
    let len = s.get(SectionId::DebugLine).len();
    let f = addr_fn(0);
    let comp_dir = m.mk(&b"/d"[..]);
    let comp_name = m.mk(&b"n.c"[..]);
    for off in [0usize, 1, 4, len / 2] {
        if !mon.tick() {
            break;
        }
        let Ok(prog) = dwarf.debug_line.program(gimli::DebugLineOffset(off), p.enc.addr, Some(comp_dir.clone()), Some(comp_name.clone())) else {
            mon.errs += 1;
            continue;
        };
        // whole-program conversion
        {
            let mut w = write::Dwarf::new();
            let r = (|| -> write::ConvertResult<write::LineProgram> {
                let conv = w.read_line_program(&dwarf, prog.clone(), None, None)?;
                let (program, _files) = conv.convert(&f)?;
                Ok(program)
            })();
            match r {
                Ok(program) => {
                    let enc = program.encoding();
                    let unit = write::Unit::new(enc, program);
                    w.units.add(unit);
                    write_out(m.endian(), &mut w, mon);
                }
                Err(_) => mon.errs += 1,
            }
        }
        // row-wise conversion with a different target encoding
        {
            let mut w = write::Dwarf::new();
            let target = gimli::Encoding { format: gimli::Format::Dwarf32, version: 5, address_size: 8 };
            let le = gimli::LineEncoding::default();
            let r = (|| -> write::ConvertResult<()> {
                let mut conv = w.read_line_program(&dwarf, prog.clone(), Some(target), Some(le))?;
                let mut n = 0u64;
                while let Some(row) = conv.read_row()? {
                    n += 1;
                    if n > 4 * len as u64 + 64 {
                        return Ok(());
                    }
                    match row {
                        write::ConvertLineRow::SetAddress(a) => conv.set_address(Address::Constant(a)),
                        write::ConvertLineRow::Row(row) => conv.generate_row(row),
                        write::ConvertLineRow::EndSequence(l) => conv.end_sequence(l),
                    }
                }
                Ok(())
            })();
            if r.is_err() {
                mon.errs += 1;
            }
        }
        // sequence-wise
        {
            let mut w = write::Dwarf::new();
            let r = (|| -> write::ConvertResult<()> {
                let mut conv = w.read_line_program(&dwarf, prog.clone(), None, None)?;
                let mut n = 0u64;
                while let Some(_seq) = conv.read_sequence()? {
                    n += 1;
                    if n > 4 * len as u64 + 64 {
                        break;
                    }
                }
                Ok(())
            })();
            if r.is_err() {
                mon.errs += 1;
            }
        }
    }
}

fn frame_conv<R, Sec>(sec: &Sec, endian: RunTimeEndian, eh: bool, mon: &mut Mon)
where
    R: Reader<Offset = usize>,
    Sec: UnwindSection<R>,
    Sec::Offset: gimli::UnwindOffset<usize>,
{
    for kind in [0u64, 1] {
        let f = addr_fn(kind);
        match write::FrameTable::from(sec, &f) {
            Ok(table) => {
                if eh {
                    let mut w = write::EhFrame::from(EndianVec::new(endian));
                    match table.write_eh_frame(&mut w) {
                        Ok(()) => mon.oks += 1,
                        Err(_) => mon.errs += 1,
                    }
                } else {
                    let mut w = write::DebugFrame::from(EndianVec::new(endian));
                    match table.write_debug_frame(&mut w) {
                        Ok(()) => mon.oks += 1,
                        Err(_) => mon.errs += 1,
                    }
                }
                // and the other section kind too: the table is section-agnostic
                if eh {
                    let mut w = write::DebugFrame::from(EndianVec::new(endian));
                    let _ = table.write_debug_frame(&mut w);
                } else {
                    let mut w = write::EhFrame::from(EndianVec::new(endian));
                    let _ = table.write_eh_frame(&mut w);
                }
            }
            Err(_) => mon.errs += 1,
        }
    }
}

/// `FrameTable::from` for both frame sections, then `write_*`.
pub fn frame_convert<'a, M: Mk<'a>>(m: &M, s: &'a Secs, p: &P, mon: &mut Mon) {
    {
        let mut sec = gimli::DebugFrame::from(m.mk(s.get(SectionId::DebugFrame)));
        sec.set_address_size(p.enc.addr);
        frame_conv(&sec, m.endian(), false, mon);
    }
    {
        let mut sec = gimli::EhFrame::from(m.mk(s.get(SectionId::EhFrame)));
        sec.set_address_size(p.enc.addr);
        frame_conv(&sec, m.endian(), true, mon);
    }
}

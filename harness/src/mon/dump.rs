//! Semantic dump (DESIGN.md Appendix C.1): a canonical, reader-independent rendering of
//! what gimli reports for a set of sections, by *meaning*.
//!
//! * `dump_dwarf`   — units (header + flat pre-order DIE forest + line table)
//! * `dump_line_program` — one line program (dirs, files, rows)
//! * `dump_frame`   — FDEs of a `.debug_frame` / `.eh_frame` section with their unwind rows
//! * `dump_expression` — one expression (decoded operations)
//! * `first_diff`   — readable first structural difference of two dumps
//!
//! Everything that is pure encoding is absent by construction: forms, section offsets,
//! string pooling, abbreviation codes, opcode choice, CIE sharing, file-index numbering,
//! `DW_AT_sibling`, the `*_base` / dwo bookkeeping attributes.  Rendering rules:
//!
//! * strings: bytes after resolving string / strp / strx* / line_strp;
//! * addresses: value after resolving addrx*;
//! * references: identity `(unit index, pre-order index)` of the target entry, or
//!   `dangling(offset)` when the offset is not an entry;
//! * range / location lists: the *resolved* ranges (`RngListIter` / `LocListIter`), so base
//!   selection entries, tombstones and empty ranges are invisible, exactly as a consumer sees
//!   them;
//! * expressions: decoded operations; branch targets as operation indices (`len` = end),
//!   entry operands as identities, `DW_OP_addrx` / `DW_OP_constx` by resolved value;
//! * file indices (attributes and line rows): `(path bytes, directory bytes)`;
//! * file and directory tables: sorted, de-duplicated *sets* (index numbering and duplicate
//!   entries are encoding); for version <= 4 the implicit directory 0 (the unit's
//!   `DW_AT_comp_dir`) is part of the directory set;
//! * `end_sequence` rows: address only (the other registers of that row carry no meaning);
//! * DIE order: children of the unit root whose tag is `DW_TAG_base_type` are listed first
//!   (stable) — `gimli::write` moves them there so that typed expression operands can use
//!   ULEB offsets, and the order of top-level siblings carries no meaning.  Identities are
//!   pre-order indices in this normalised order.  (Option `base_types_first`.)
//! * CFI: every FDE with its CIE's fields inlined (CIE sharing / order / unreferenced CIEs
//!   are encoding) and the complete unwind table; adjacent rows with identical CFA, rules and
//!   args size are merged (how a run of advance_loc instructions is split is encoding); an
//!   absent FDE pointer encoding is DW_EH_PE_absptr.
//!
//! A dump step that fails records `E(variant name)` at that node instead of aborting.
//! The DIE forest is rendered *flat* (pre-order list with depths), so neither building nor
//! comparing a dump recurses per nesting level of the input.
//!
//! Generic over `R: gimli::Reader` (any offset type).

use gimli::read::{
    AttributeValue, BaseAddresses, CfaRule, CieOrFde, DebuggingInformationEntry, Operation, Reader, ReaderOffset, RegisterRule,
    UnwindContext, UnwindOffset, UnwindSection,
};
use gimli::{constants, DebugInfoOffset, DieReference, UnitOffset, UnitSectionOffset};
use serde_json::{json, Value};
use std::collections::HashMap;

// ---------------------------------------------------------------- the dump value

#[derive(Clone, Debug, PartialEq)]
pub enum D {
    Nil,
    B(bool),
    U(u64),
    I(i64),
    W(u128),
    Bytes(Vec<u8>),
    S(String),
    /// ordered list
    L(Vec<D>),
    /// record: ordered named fields
    R(Vec<(String, D)>),
    /// tagged value, e.g. `T("addr", U(0x1000))`
    T(String, Box<D>),
    /// an error recorded at this node (variant name only: payloads may be reader dependent)
    E(String),
}

pub fn rec(fields: Vec<(&str, D)>) -> D {
    D::R(fields.into_iter().map(|(k, v)| (k.to_string(), v)).collect())
}
pub fn tag(t: &str, d: D) -> D {
    D::T(t.to_string(), Box::new(d))
}
pub fn s(x: &str) -> D {
    D::S(x.to_string())
}

/// Name of a gimli error without its payload.
pub fn err_name<E: std::fmt::Debug>(e: &E) -> String {
    let t = format!("{:?}", e);
    t.chars().take_while(|c| c.is_ascii_alphanumeric() || *c == '_').collect()
}
fn err<E: std::fmt::Debug>(e: &E) -> D {
    D::E(err_name(e))
}

impl D {
    pub fn get(&self, key: &str) -> Option<&D> {
        match self {
            D::R(f) => f.iter().find(|(k, _)| k == key).map(|(_, v)| v),
            _ => None,
        }
    }
    pub fn list(&self) -> &[D] {
        match self {
            D::L(v) => v,
            _ => &[],
        }
    }
    /// Does the dump contain an error node?
    pub fn has_error(&self) -> bool {
        let mut stack = vec![self];
        while let Some(d) = stack.pop() {
            match d {
                D::E(_) => return true,
                D::L(v) => stack.extend(v.iter()),
                D::R(f) => stack.extend(f.iter().map(|(_, v)| v)),
                D::T(_, b) => stack.push(b),
                _ => {}
            }
        }
        false
    }
    /// First error node (name), if any.
    pub fn first_error(&self) -> Option<String> {
        let mut stack = vec![self];
        while let Some(d) = stack.pop() {
            match d {
                D::E(e) => return Some(e.clone()),
                D::L(v) => stack.extend(v.iter().rev()),
                D::R(f) => stack.extend(f.iter().rev().map(|(_, v)| v)),
                D::T(_, b) => stack.push(b),
                _ => {}
            }
        }
        None
    }
    pub fn node_count(&self) -> usize {
        let mut n = 0;
        let mut stack = vec![self];
        while let Some(d) = stack.pop() {
            n += 1;
            match d {
                D::L(v) => stack.extend(v.iter()),
                D::R(f) => stack.extend(f.iter().map(|(_, v)| v)),
                D::T(_, b) => stack.push(b),
                _ => {}
            }
        }
        n
    }
    /// Compact one-line rendering (for diff messages).
    pub fn brief(&self) -> String {
        let mut out = String::new();
        brief_into(self, &mut out, 0);
        if out.len() > 400 {
            let mut cut = 400;
            while !out.is_char_boundary(cut) {
                cut -= 1;
            }
            out.truncate(cut);
            out.push_str("...");
        }
        out
    }
    /// JSON rendering (for replay files / samples); large dumps are cut.
    pub fn to_json(&self) -> Value {
        to_json_lim(self, &mut 4000, 0)
    }
}

fn hexs(b: &[u8]) -> String {
    let mut t = String::new();
    for x in b.iter().take(64) {
        t.push_str(&format!("{:02x}", x));
    }
    if b.len() > 64 {
        t.push_str(&format!("..+{}", b.len() - 64));
    }
    t
}

fn brief_into(d: &D, out: &mut String, depth: usize) {
    if out.len() > 500 {
        return;
    }
    match d {
        D::Nil => out.push_str("nil"),
        D::B(b) => out.push_str(if *b { "true" } else { "false" }),
        D::U(v) => out.push_str(&format!("{:#x}", v)),
        D::I(v) => out.push_str(&format!("{}", v)),
        D::W(v) => out.push_str(&format!("{:#x}", v)),
        D::Bytes(b) => {
            if !b.is_empty() && b.iter().all(|c| (0x20..0x7f).contains(c)) {
                out.push_str(&format!("\"{}\"", String::from_utf8_lossy(b)));
            } else {
                out.push_str(&format!("x'{}'", hexs(b)));
            }
        }
        D::S(t) => out.push_str(t),
        D::E(t) => out.push_str(&format!("Error({})", t)),
        D::T(t, b) => {
            out.push_str(t);
            out.push('(');
            if depth < 12 {
                brief_into(b, out, depth + 1);
            } else {
                out.push_str("..");
            }
            out.push(')');
        }
        D::L(v) => {
            out.push('[');
            for (i, x) in v.iter().enumerate() {
                if i > 0 {
                    out.push_str(", ");
                }
                if depth < 12 {
                    brief_into(x, out, depth + 1);
                } else {
                    out.push_str("..");
                }
                if out.len() > 500 {
                    break;
                }
            }
            out.push(']');
        }
        D::R(f) => {
            out.push('{');
            for (i, (k, x)) in f.iter().enumerate() {
                if i > 0 {
                    out.push_str(", ");
                }
                out.push_str(k);
                out.push(':');
                if depth < 12 {
                    brief_into(x, out, depth + 1);
                } else {
                    out.push_str("..");
                }
                if out.len() > 500 {
                    break;
                }
            }
            out.push('}');
        }
    }
}

fn to_json_lim(d: &D, budget: &mut i64, depth: usize) -> Value {
    *budget -= 1;
    if *budget < 0 || depth > 24 {
        return json!("...");
    }
    match d {
        D::Nil => Value::Null,
        D::B(b) => json!(b),
        D::U(v) => json!(v),
        D::I(v) => json!(v),
        D::W(v) => json!(format!("{:#x}", v)),
        D::Bytes(b) => json!(format!("x'{}'", hexs(b))),
        D::S(t) => json!(t),
        D::E(t) => json!({ "error": t }),
        D::T(t, b) => {
            let mut m = serde_json::Map::new();
            m.insert(t.clone(), to_json_lim(b, budget, depth + 1));
            Value::Object(m)
        }
        D::L(v) => Value::Array(v.iter().map(|x| to_json_lim(x, budget, depth + 1)).collect()),
        D::R(f) => {
            let mut m = serde_json::Map::new();
            for (k, x) in f {
                m.insert(k.clone(), to_json_lim(x, budget, depth + 1));
            }
            Value::Object(m)
        }
    }
}

fn kind(d: &D) -> &'static str {
    match d {
        D::Nil => "nil",
        D::B(_) => "bool",
        D::U(_) => "unsigned",
        D::I(_) => "signed",
        D::W(_) => "u128",
        D::Bytes(_) => "bytes",
        D::S(_) => "symbol",
        D::L(_) => "list",
        D::R(_) => "record",
        D::T(_, _) => "tagged",
        D::E(_) => "error",
    }
}

/// The first structural difference between two dumps as `path: left <> right`, or `None`
/// when they are equal.  Walks with an explicit stack.
pub fn first_diff(a: &D, b: &D) -> Option<String> {
    let mut stack: Vec<(String, &D, &D)> = vec![(String::new(), a, b)];
    while let Some((path, x, y)) = stack.pop() {
        match (x, y) {
            (D::L(u), D::L(v)) => {
                let n = u.len().min(v.len());
                // the first differing element decides; push in reverse so index 0 pops first
                if u.len() != v.len() {
                    // look for a differing common element first: it is the more useful report
                    let mut found = false;
                    for i in 0..n {
                        if u[i] != v[i] {
                            stack.push((format!("{}[{}]", path, i), &u[i], &v[i]));
                            found = true;
                            break;
                        }
                    }
                    if !found {
                        let extra = if u.len() > v.len() { &u[n] } else { &v[n] };
                        return Some(format!(
                            "{}: list length {} <> {} (first extra element on the {} side: {})",
                            path,
                            u.len(),
                            v.len(),
                            if u.len() > v.len() { "left" } else { "right" },
                            extra.brief()
                        ));
                    }
                } else {
                    for i in 0..n {
                        if u[i] != v[i] {
                            stack.push((format!("{}[{}]", path, i), &u[i], &v[i]));
                            break;
                        }
                    }
                }
            }
            (D::R(f), D::R(g)) => {
                let kf: Vec<&String> = f.iter().map(|(k, _)| k).collect();
                let kg: Vec<&String> = g.iter().map(|(k, _)| k).collect();
                if kf != kg {
                    return Some(format!("{}: record fields {:?} <> {:?}", path, kf, kg));
                }
                for i in 0..f.len() {
                    if f[i].1 != g[i].1 {
                        stack.push((format!("{}.{}", path, f[i].0), &f[i].1, &g[i].1));
                        break;
                    }
                }
            }
            (D::T(t, p), D::T(u, q)) if t == u => {
                if p != q {
                    stack.push((format!("{}.{}", path, t), p, q));
                }
            }
            _ => {
                if x != y {
                    let what = if kind(x) != kind(y) { format!(" ({} <> {})", kind(x), kind(y)) } else { String::new() };
                    return Some(format!("{}: {} <> {}{}", path, x.brief(), y.brief(), what));
                }
            }
        }
    }
    None
}

// ---------------------------------------------------------------- options

#[derive(Clone, Copy, Debug)]
pub struct DumpOpts {
    /// list `DW_TAG_base_type` children of the unit root first (see the module comment)
    pub base_types_first: bool,
    /// include the line table of each unit
    pub line: bool,
    /// bound on entries per unit / rows per table / units (a truncated dump records `E("DumpLimit")`)
    pub limit: usize,
}

impl Default for DumpOpts {
    fn default() -> Self {
        DumpOpts { base_types_first: true, line: true, limit: 200_000 }
    }
}

// ---------------------------------------------------------------- units

struct UnitData<R: Reader> {
    header: gimli::UnitHeader<R>,
    unit: Result<gimli::Unit<R>, String>,
    /// entries in section order
    entries: Vec<DebuggingInformationEntry<R>>,
    entries_err: Option<String>,
    /// normalised pre-order: positions into `entries`
    order: Vec<usize>,
    /// unit offset of an entry -> pre-order index
    idx: HashMap<u64, usize>,
    /// section offset of the unit header and its total length
    start: u64,
    len: u64,
    in_types: bool,
}

fn load_unit<R: Reader>(dwarf: &gimli::Dwarf<R>, header: gimli::UnitHeader<R>, in_types: bool, opts: &DumpOpts) -> UnitData<R> {
    let start = header.offset().0.into_u64();
    let len = header.length_including_self().into_u64();
    let unit = dwarf.unit(header.clone()).map_err(|e| err_name(&e));
    let mut entries = vec![];
    let mut entries_err = None;
    match dwarf.abbreviations(&header) {
        Err(e) => entries_err = Some(err_name(&e)),
        Ok(abbrevs) => match header.entries_raw(&abbrevs, None) {
            Err(e) => entries_err = Some(err_name(&e)),
            Ok(mut raw) => {
                let mut e = DebuggingInformationEntry::null();
                while !raw.is_empty() {
                    if entries.len() >= opts.limit {
                        entries_err = Some("DumpLimit".into());
                        break;
                    }
                    match raw.read_entry(&mut e) {
                        Ok(true) => entries.push(e.clone()),
                        Ok(false) => {}
                        Err(x) => {
                            entries_err = Some(err_name(&x));
                            break;
                        }
                    }
                }
            }
        },
    }
    // normalised order
    let mut order: Vec<usize> = Vec::with_capacity(entries.len());
    if !entries.is_empty() {
        order.push(0);
        // blocks: maximal runs starting at an entry of depth <= 1
        let mut blocks: Vec<(usize, usize)> = vec![];
        let mut i = 1;
        while i < entries.len() {
            let mut j = i + 1;
            while j < entries.len() && entries[j].depth > 1 {
                j += 1;
            }
            blocks.push((i, j));
            i = j;
        }
        if opts.base_types_first {
            for &(a, b) in &blocks {
                if entries[a].depth == 1 && entries[a].tag == constants::DW_TAG_base_type {
                    order.extend(a..b);
                }
            }
            for &(a, b) in &blocks {
                if !(entries[a].depth == 1 && entries[a].tag == constants::DW_TAG_base_type) {
                    order.extend(a..b);
                }
            }
        } else {
            for &(a, b) in &blocks {
                order.extend(a..b);
            }
        }
    }
    let mut idx = HashMap::new();
    for (pos, &k) in order.iter().enumerate() {
        idx.insert(entries[k].offset.0.into_u64(), pos);
    }
    UnitData { header, unit, entries, entries_err, order, idx, start, len, in_types }
}

struct Ctx<'a, R: Reader> {
    dwarf: &'a gimli::Dwarf<R>,
    units: &'a [UnitData<R>],
    /// index of the current unit in `units`
    cur: usize,
}

fn id(u: usize, i: usize) -> D {
    tag("id", D::L(vec![D::U(u as u64), D::U(i as u64)]))
}

impl<'a, R: Reader> Ctx<'a, R> {
    fn unit(&self) -> Option<&'a gimli::Unit<R>> {
        self.units.get(self.cur).and_then(|u| u.unit.as_ref().ok())
    }
    fn unit_ref(&self, off: UnitOffset<R::Offset>) -> D {
        let o = off.0.into_u64();
        match self.units.get(self.cur).and_then(|u| u.idx.get(&o)) {
            Some(&i) => id(self.cur, i),
            None => tag("dangling_unit_ref", D::U(o)),
        }
    }
    fn info_ref(&self, off: DebugInfoOffset<R::Offset>) -> D {
        let o = off.0.into_u64();
        for (k, u) in self.units.iter().enumerate() {
            if !u.in_types && o >= u.start && o < u.start.saturating_add(u.len) {
                if let Some(&i) = u.idx.get(&(o - u.start)) {
                    return id(k, i);
                }
            }
        }
        tag("dangling_info_ref", D::U(o))
    }
    fn string(&self, v: AttributeValue<R>) -> D {
        let Some(unit) = self.unit() else { return D::E("NoUnit".into()) };
        match self.dwarf.attr_string(unit, v) {
            Ok(r) => match r.to_slice() {
                Ok(b) => D::Bytes(b.to_vec()),
                Err(e) => err(&e),
            },
            Err(e) => err(&e),
        }
    }
    fn address(&self, index: gimli::DebugAddrIndex<R::Offset>) -> D {
        let Some(unit) = self.unit() else { return D::E("NoUnit".into()) };
        match self.dwarf.address(unit, index) {
            Ok(a) => D::U(a),
            Err(e) => err(&e),
        }
    }
    fn ranges(&self, off: gimli::RangeListsOffset<R::Offset>) -> D {
        let Some(unit) = self.unit() else { return D::E("NoUnit".into()) };
        let mut out = vec![];
        match self.dwarf.ranges(unit, off) {
            Err(e) => return tag("ranges", err(&e)),
            Ok(mut it) => loop {
                if out.len() > 100_000 {
                    out.push(D::E("DumpLimit".into()));
                    break;
                }
                match it.next() {
                    Ok(Some(r)) => out.push(D::L(vec![D::U(r.begin), D::U(r.end)])),
                    Ok(None) => break,
                    Err(e) => {
                        out.push(err(&e));
                        break;
                    }
                }
            },
        }
        tag("ranges", D::L(out))
    }
    fn locations(&self, off: gimli::LocationListsOffset<R::Offset>) -> D {
        let Some(unit) = self.unit() else { return D::E("NoUnit".into()) };
        let mut out = vec![];
        match self.dwarf.locations(unit, off) {
            Err(e) => return tag("locs", err(&e)),
            Ok(mut it) => loop {
                if out.len() > 100_000 {
                    out.push(D::E("DumpLimit".into()));
                    break;
                }
                match it.next() {
                    Ok(Some(l)) => out.push(D::L(vec![D::U(l.range.begin), D::U(l.range.end), self.expr(&l.data, 0)])),
                    Ok(None) => break,
                    Err(e) => {
                        out.push(err(&e));
                        break;
                    }
                }
            },
        }
        tag("locs", D::L(out))
    }

    fn expr(&self, e: &gimli::Expression<R>, depth: usize) -> D {
        let encoding = match self.units.get(self.cur) {
            Some(u) => u.header.encoding(),
            None => return D::E("NoUnit".into()),
        };
        expr_ops(e, encoding, Some(self), depth)
    }

    fn file(&self, index: u64) -> D {
        let Some(unit) = self.unit() else { return D::E("NoUnit".into()) };
        let Some(program) = &unit.line_program else { return tag("file", D::E("NoLineProgram".into())) };
        let header = program.header();
        if index == 0 && header.version() <= 4 {
            return tag("file", D::Nil);
        }
        match header.file(index) {
            None => tag("file", D::E("BadFileIndex".into())),
            Some(f) => tag("file", file_id(self.dwarf, Some(unit), header, f)),
        }
    }
}

fn line_string<R: Reader>(dwarf: &gimli::Dwarf<R>, unit: Option<&gimli::Unit<R>>, v: AttributeValue<R>) -> D {
    let r = match unit {
        Some(u) => dwarf.attr_string(u, v),
        None => dwarf.attr_line_string(v),
    };
    match r {
        Ok(r) => match r.to_slice() {
            Ok(b) => D::Bytes(b.to_vec()),
            Err(e) => err(&e),
        },
        Err(e) => err(&e),
    }
}

/// `(path, directory)` of a file entry.
fn file_id<R: Reader>(
    dwarf: &gimli::Dwarf<R>,
    unit: Option<&gimli::Unit<R>>,
    header: &gimli::LineProgramHeader<R>,
    f: &gimli::FileEntry<R>,
) -> D {
    let path = line_string(dwarf, unit, f.path_name());
    let dir = match f.directory(header) {
        Some(d) => line_string(dwarf, unit, d),
        None => {
            if f.directory_index() == 0 {
                D::Nil
            } else {
                D::E("BadDirectoryIndex".into())
            }
        }
    };
    D::L(vec![path, dir])
}

fn reg(r: gimli::Register) -> D {
    D::U(r.0 as u64)
}

/// Decoded operations of an expression.  `ctx` resolves entry references / address indices;
/// without it they are rendered raw.
fn expr_ops<R: Reader>(e: &gimli::Expression<R>, encoding: gimli::Encoding, ctx: Option<&Ctx<'_, R>>, depth: usize) -> D {
    if depth > 32 {
        return tag("expr", D::E("DumpDepth".into()));
    }
    // pass 1: operation boundaries
    let mut starts: Vec<u64> = vec![];
    let mut ends: Vec<u64> = vec![];
    let mut ops: Vec<Operation<R>> = vec![];
    let mut it = e.clone().operations(encoding);
    let mut failure = None;
    let mut off = 0u64;
    loop {
        if ops.len() > 200_000 {
            failure = Some("DumpLimit".to_string());
            break;
        }
        match it.next() {
            Ok(Some(op)) => {
                starts.push(off);
                off = it.offset_from(e).into_u64();
                ends.push(off);
                ops.push(op);
            }
            Ok(None) => break,
            Err(x) => {
                failure = Some(err_name(&x));
                break;
            }
        }
    }
    let total = e.0.len().into_u64();
    let target = |i: usize, t: i16| -> D {
        let to = (ends[i] as i128) + (t as i128);
        if to == total as i128 && failure.is_none() {
            return D::U(ops.len() as u64);
        }
        if to < 0 {
            return D::E("BadBranchTarget".into());
        }
        match starts.binary_search(&(to as u64)) {
            Ok(k) => D::U(k as u64),
            Err(_) => D::E("BadBranchTarget".into()),
        }
    };
    let uref = |o: UnitOffset<R::Offset>| -> D {
        match ctx {
            Some(c) => c.unit_ref(o),
            None => tag("unit_offset", D::U(o.0.into_u64())),
        }
    };
    let base = |o: UnitOffset<R::Offset>| -> D {
        if o.0.into_u64() == 0 {
            D::Nil
        } else {
            uref(o)
        }
    };
    let iref = |o: DebugInfoOffset<R::Offset>| -> D {
        match ctx {
            Some(c) => c.info_ref(o),
            None => tag("info_offset", D::U(o.0.into_u64())),
        }
    };
    let bytes = |r: &R| -> D {
        match r.to_slice() {
            Ok(b) => D::Bytes(b.to_vec()),
            Err(x) => err(&x),
        }
    };
    let mut out = Vec::with_capacity(ops.len() + 1);
    for (i, op) in ops.iter().enumerate() {
        let d = match op {
            Operation::Deref { base_type, size, space } => {
                tag("deref", D::L(vec![base(*base_type), D::U(*size as u64), D::B(*space)]))
            }
            Operation::Drop => s("drop"),
            Operation::Pick { index } => tag("pick", D::U(*index as u64)),
            Operation::Swap => s("swap"),
            Operation::Rot => s("rot"),
            Operation::Abs => s("abs"),
            Operation::And => s("and"),
            Operation::Div => s("div"),
            Operation::Minus => s("minus"),
            Operation::Mod => s("mod"),
            Operation::Mul => s("mul"),
            Operation::Neg => s("neg"),
            Operation::Not => s("not"),
            Operation::Or => s("or"),
            Operation::Plus => s("plus"),
            Operation::PlusConstant { value } => tag("plus_uconst", D::U(*value)),
            Operation::Shl => s("shl"),
            Operation::Shr => s("shr"),
            Operation::Shra => s("shra"),
            Operation::Xor => s("xor"),
            Operation::Bra { target: t } => tag("bra", target(i, *t)),
            Operation::Eq => s("eq"),
            Operation::Ge => s("ge"),
            Operation::Gt => s("gt"),
            Operation::Le => s("le"),
            Operation::Lt => s("lt"),
            Operation::Ne => s("ne"),
            Operation::Skip { target: t } => tag("skip", target(i, *t)),
            Operation::UnsignedConstant { value } => tag("uconst", D::U(*value)),
            Operation::SignedConstant { value } => tag("sconst", D::I(*value)),
            Operation::Register { register } => tag("reg", reg(*register)),
            Operation::RegisterOffset { register, offset, base_type } => {
                tag("breg", D::L(vec![reg(*register), D::I(*offset), base(*base_type)]))
            }
            Operation::FrameOffset { offset } => tag("fbreg", D::I(*offset)),
            Operation::Nop => s("nop"),
            Operation::PushObjectAddress => s("push_object_address"),
            Operation::Call { offset } => match offset {
                DieReference::UnitRef(o) => tag("call", uref(*o)),
                DieReference::DebugInfoRef(o) => tag("call", iref(*o)),
            },
            Operation::VariableValue { offset } => tag("variable_value", iref(*offset)),
            Operation::TLS => s("tls"),
            Operation::CallFrameCFA => s("call_frame_cfa"),
            Operation::Piece { size_in_bits, bit_offset } => tag(
                "piece",
                D::L(vec![
                    D::U(*size_in_bits),
                    match bit_offset {
                        Some(b) => D::U(*b),
                        None => D::Nil,
                    },
                ]),
            ),
            Operation::ImplicitValue { data } => tag("implicit_value", bytes(data)),
            Operation::StackValue => s("stack_value"),
            Operation::ImplicitPointer { value, byte_offset } => tag("implicit_pointer", D::L(vec![iref(*value), D::I(*byte_offset)])),
            Operation::EntryValue { expression } => {
                tag("entry_value", expr_ops(&gimli::Expression(expression.clone()), encoding, ctx, depth + 1))
            }
            Operation::ParameterRef { offset } => tag("parameter_ref", uref(*offset)),
            Operation::Address { address } => tag("addr", D::U(*address)),
            Operation::AddressIndex { index } => match ctx {
                Some(c) => tag("addr", c.address(*index)),
                None => tag("addrx", D::U(index.0.into_u64())),
            },
            Operation::ConstantIndex { index } => match ctx {
                Some(c) => tag("uconst", c.address(*index)),
                None => tag("constx", D::U(index.0.into_u64())),
            },
            Operation::TypedLiteral { base_type, value } => tag("const_type", D::L(vec![uref(*base_type), bytes(value)])),
            Operation::Convert { base_type } => tag("convert", base(*base_type)),
            Operation::Reinterpret { base_type } => tag("reinterpret", base(*base_type)),
            Operation::Uninitialized => s("uninit"),
            Operation::WasmLocal { index } => tag("wasm_local", D::U(*index as u64)),
            Operation::WasmGlobal { index } => tag("wasm_global", D::U(*index as u64)),
            Operation::WasmStack { index } => tag("wasm_stack", D::U(*index as u64)),
        };
        out.push(d);
    }
    if let Some(f) = failure {
        out.push(D::E(f));
    }
    tag("expr", D::L(out))
}

/// Dump a stand-alone expression (no unit context: references and address indices raw).
pub fn dump_expression<R: Reader>(e: &gimli::Expression<R>, encoding: gimli::Encoding) -> D {
    expr_ops(e, encoding, None, 0)
}

fn omitted(name: constants::DwAt) -> bool {
    matches!(
        name,
        constants::DW_AT_sibling
            | constants::DW_AT_str_offsets_base
            | constants::DW_AT_addr_base
            | constants::DW_AT_rnglists_base
            | constants::DW_AT_loclists_base
            | constants::DW_AT_dwo_name
            | constants::DW_AT_GNU_addr_base
            | constants::DW_AT_GNU_ranges_base
            | constants::DW_AT_GNU_dwo_name
            | constants::DW_AT_GNU_dwo_id
    )
}

fn meaning<R: Reader>(c: &Ctx<'_, R>, attr: &gimli::Attribute<R>) -> D {
    let v = attr.value();
    match v {
        AttributeValue::Addr(a) => tag("addr", D::U(a)),
        AttributeValue::DebugAddrIndex(i) => tag("addr", c.address(i)),
        AttributeValue::Block(r) => tag(
            "block",
            match r.to_slice() {
                Ok(b) => D::Bytes(b.to_vec()),
                Err(e) => err(&e),
            },
        ),
        AttributeValue::Data1(x) => tag("data1", D::U(x as u64)),
        AttributeValue::Data2(x) => tag("data2", D::U(x as u64)),
        AttributeValue::Data4(x) => tag("data4", D::U(x as u64)),
        AttributeValue::Data8(x) => tag("data8", D::U(x)),
        AttributeValue::Data16(x) => tag("data16", D::W(x)),
        AttributeValue::Sdata(x) => tag("sdata", D::I(x)),
        AttributeValue::Udata(x) => tag("udata", D::U(x)),
        AttributeValue::Exprloc(e) => c.expr(&e, 0),
        AttributeValue::Flag(b) => tag("flag", D::B(b)),
        AttributeValue::SecOffset(o) => tag("sec_offset", D::U(o.into_u64())),
        AttributeValue::DebugAddrBase(o) => tag("addr_base", D::U(o.0.into_u64())),
        AttributeValue::DebugLocListsBase(o) => tag("loclists_base", D::U(o.0.into_u64())),
        AttributeValue::DebugRngListsBase(o) => tag("rnglists_base", D::U(o.0.into_u64())),
        AttributeValue::DebugStrOffsetsBase(o) => tag("str_offsets_base", D::U(o.0.into_u64())),
        AttributeValue::UnitRef(o) => tag("ref", c.unit_ref(o)),
        AttributeValue::DebugInfoRef(o) => tag("ref", c.info_ref(o)),
        AttributeValue::DebugInfoRefSup(o) => tag("ref_sup", D::U(o.0.into_u64())),
        AttributeValue::DebugLineRef(o) => {
            let own = c.unit().and_then(|u| u.line_program.as_ref()).map(|p| p.header().offset().0.into_u64());
            if own == Some(o.0.into_u64()) {
                s("line_program")
            } else {
                tag("other_line_program", D::U(o.0.into_u64()))
            }
        }
        AttributeValue::LocationListsRef(o) => c.locations(o),
        AttributeValue::DebugLocListsIndex(i) => match c.unit() {
            None => D::E("NoUnit".into()),
            Some(u) => match c.dwarf.locations_offset(u, i) {
                Ok(o) => c.locations(o),
                Err(e) => tag("locs", err(&e)),
            },
        },
        AttributeValue::DebugMacinfoRef(o) => tag("macinfo", D::U(o.0.into_u64())),
        AttributeValue::DebugMacroRef(o) => tag("macro", D::U(o.0.into_u64())),
        AttributeValue::RangeListsRef(o) => match c.unit() {
            None => D::E("NoUnit".into()),
            Some(u) => c.ranges(c.dwarf.ranges_offset_from_raw(u, o)),
        },
        AttributeValue::DebugRngListsIndex(i) => match c.unit() {
            None => D::E("NoUnit".into()),
            Some(u) => match c.dwarf.ranges_offset(u, i) {
                Ok(o) => c.ranges(o),
                Err(e) => tag("ranges", err(&e)),
            },
        },
        AttributeValue::DebugTypesRef(sig) => tag("sig", D::U(sig.0)),
        AttributeValue::DebugStrRefSup(o) => tag("str_sup", D::U(o.0.into_u64())),
        v @ (AttributeValue::DebugStrRef(_)
        | AttributeValue::DebugStrOffsetsIndex(_)
        | AttributeValue::DebugLineStrRef(_)
        | AttributeValue::String(_)) => tag("str", c.string(v)),
        AttributeValue::Encoding(x) => tag("ate", D::U(x.0 as u64)),
        AttributeValue::DecimalSign(x) => tag("ds", D::U(x.0 as u64)),
        AttributeValue::Endianity(x) => tag("end", D::U(x.0 as u64)),
        AttributeValue::Accessibility(x) => tag("access", D::U(x.0 as u64)),
        AttributeValue::Visibility(x) => tag("vis", D::U(x.0 as u64)),
        AttributeValue::Virtuality(x) => tag("virtuality", D::U(x.0 as u64)),
        AttributeValue::Language(x) => tag("lang", D::U(x.0 as u64)),
        AttributeValue::AddressClass(x) => tag("addr_class", D::U(x.0)),
        AttributeValue::IdentifierCase(x) => tag("id_case", D::U(x.0 as u64)),
        AttributeValue::CallingConvention(x) => tag("cc", D::U(x.0 as u64)),
        AttributeValue::Inline(x) => tag("inl", D::U(x.0 as u64)),
        AttributeValue::Ordering(x) => tag("ord", D::U(x.0 as u64)),
        AttributeValue::FileIndex(i) => c.file(i),
        AttributeValue::DwoId(x) => tag("dwo_id", D::U(x.0)),
    }
}

fn tag_name(t: constants::DwTag) -> D {
    match t.static_string() {
        Some(n) => s(n),
        None => tag("DW_TAG", D::U(t.0 as u64)),
    }
}
fn at_name(t: constants::DwAt) -> String {
    match t.static_string() {
        Some(n) => n.to_string(),
        None => format!("DW_AT_{:#x}", t.0),
    }
}

fn unit_header<R: Reader>(c: &Ctx<'_, R>, u: &UnitData<R>) -> D {
    let h = &u.header;
    let mut f = vec![
        ("version", D::U(h.version() as u64)),
        ("format", D::U(if h.format() == gimli::Format::Dwarf64 { 64 } else { 32 })),
        ("address_size", D::U(h.address_size() as u64)),
    ];
    match h.type_() {
        gimli::UnitType::Compilation => f.push(("type", s("compile"))),
        gimli::UnitType::Partial => f.push(("type", s("partial"))),
        gimli::UnitType::Skeleton(x) => {
            f.push(("type", s("skeleton")));
            f.push(("dwo_id", D::U(x.0)));
        }
        gimli::UnitType::SplitCompilation(x) => {
            f.push(("type", s("split_compile")));
            f.push(("dwo_id", D::U(x.0)));
        }
        gimli::UnitType::Type { type_signature, type_offset } => {
            f.push(("type", s("type")));
            f.push(("signature", D::U(type_signature.0)));
            f.push(("type_ref", c.unit_ref(type_offset)));
        }
        gimli::UnitType::SplitType { type_signature, type_offset } => {
            f.push(("type", s("split_type")));
            f.push(("signature", D::U(type_signature.0)));
            f.push(("type_ref", c.unit_ref(type_offset)));
        }
    }
    rec(f)
}

/// Dump everything reachable from `.debug_info` (and `.debug_types`) of `dwarf`.
pub fn dump_dwarf<R: Reader>(dwarf: &gimli::Dwarf<R>) -> D {
    dump_dwarf_with(dwarf, &DumpOpts::default())
}

pub fn dump_dwarf_with<R: Reader>(dwarf: &gimli::Dwarf<R>, opts: &DumpOpts) -> D {
    let mut units: Vec<UnitData<R>> = vec![];
    let mut section_err: Option<String> = None;
    let mut it = dwarf.units();
    loop {
        if units.len() >= opts.limit {
            section_err = Some("DumpLimit".into());
            break;
        }
        match it.next() {
            Ok(Some(h)) => units.push(load_unit(dwarf, h, false, opts)),
            Ok(None) => break,
            Err(e) => {
                section_err = Some(err_name(&e));
                break;
            }
        }
    }
    let mut types_err: Option<String> = None;
    let mut it = dwarf.type_units();
    loop {
        if units.len() >= opts.limit {
            types_err = Some("DumpLimit".into());
            break;
        }
        match it.next() {
            Ok(Some(h)) => units.push(load_unit(dwarf, h, true, opts)),
            Ok(None) => break,
            Err(e) => {
                types_err = Some(err_name(&e));
                break;
            }
        }
    }
    let mut out_units = vec![];
    for (k, u) in units.iter().enumerate() {
        let c = Ctx { dwarf, units: &units, cur: k };
        let mut f: Vec<(&str, D)> = vec![];
        if u.in_types {
            f.push(("section", s("debug_types")));
        }
        f.push(("header", unit_header(&c, u)));
        if let Err(e) = &u.unit {
            f.push(("unit_error", D::E(e.clone())));
        }
        let mut forest = Vec::with_capacity(u.order.len());
        for (pos, &raw) in u.order.iter().enumerate() {
            let e = &u.entries[raw];
            let mut attrs = vec![];
            for a in e.attrs() {
                if omitted(a.name()) {
                    continue;
                }
                attrs.push(D::T(at_name(a.name()), Box::new(meaning(&c, a))));
            }
            forest.push(rec(vec![
                ("id", D::L(vec![D::U(k as u64), D::U(pos as u64)])),
                ("depth", D::I(e.depth as i64)),
                ("tag", tag_name(e.tag)),
                ("attrs", D::L(attrs)),
            ]));
        }
        if let Some(e) = &u.entries_err {
            forest.push(D::E(e.clone()));
        }
        f.push(("forest", D::L(forest)));
        if opts.line {
            if let Ok(unit) = &u.unit {
                if let Some(p) = &unit.line_program {
                    f.push(("line", dump_line_program_with(dwarf, Some(unit), p.clone(), opts)));
                }
            }
        }
        out_units.push(rec(f));
    }
    let mut top = vec![("units", D::L(out_units))];
    if let Some(e) = section_err {
        top.push(("debug_info_error", D::E(e)));
    }
    if let Some(e) = types_err {
        top.push(("debug_types_error", D::E(e)));
    }
    rec(top)
}

// ---------------------------------------------------------------- line programs

/// Dump one line program: `{dirs, files, rows}`.  `unit` is used to resolve indexed string
/// forms of file / directory names (`None`: only inline / strp / line_strp forms resolve).
pub fn dump_line_program<R: Reader>(dwarf: &gimli::Dwarf<R>, unit: Option<&gimli::Unit<R>>, program: gimli::IncompleteLineProgram<R>) -> D {
    dump_line_program_with(dwarf, unit, program, &DumpOpts::default())
}

pub fn dump_line_program_with<R: Reader>(
    dwarf: &gimli::Dwarf<R>,
    unit: Option<&gimli::Unit<R>>,
    program: gimli::IncompleteLineProgram<R>,
    opts: &DumpOpts,
) -> D {
    let mut rows_out = vec![];
    let mut rows = program.rows();
    let mut seq = 0u64;
    loop {
        if rows_out.len() >= opts.limit {
            rows_out.push(D::E("DumpLimit".into()));
            break;
        }
        match rows.next_row() {
            Ok(None) => break,
            Err(e) => {
                rows_out.push(err(&e));
                break;
            }
            Ok(Some((header, row))) => {
                if row.end_sequence() {
                    rows_out.push(rec(vec![("seq", D::U(seq)), ("addr", D::U(row.address())), ("end", D::B(true))]));
                    seq += 1;
                } else {
                    let file = match row.file(header) {
                        Some(f) => {
                            if row.file_index() == 0 && header.version() <= 4 {
                                D::E("FileIndexZero".into())
                            } else {
                                file_id(dwarf, unit, header, f)
                            }
                        }
                        None => D::E("BadFileIndex".into()),
                    };
                    rows_out.push(rec(vec![
                        ("seq", D::U(seq)),
                        ("addr", D::U(row.address())),
                        ("op_index", D::U(row.op_index())),
                        ("file", file),
                        ("line", D::U(row.line().map(|l| l.get()).unwrap_or(0))),
                        (
                            "col",
                            D::U(match row.column() {
                                gimli::ColumnType::LeftEdge => 0,
                                gimli::ColumnType::Column(c) => c.get(),
                            }),
                        ),
                        ("stmt", D::B(row.is_stmt())),
                        ("bb", D::B(row.basic_block())),
                        ("pe", D::B(row.prologue_end())),
                        ("eb", D::B(row.epilogue_begin())),
                        ("isa", D::U(row.isa())),
                        ("disc", D::U(row.discriminator())),
                    ]));
                }
            }
        }
    }
    // tables from the final header (DW_LNE_define_file entries included)
    let header = rows.header();
    let mut dirs: Vec<D> = vec![];
    if header.version() <= 4 {
        if let Some(d) = header.directory(0) {
            dirs.push(line_string(dwarf, unit, d));
        }
    }
    for d in header.include_directories() {
        dirs.push(line_string(dwarf, unit, d.clone()));
    }
    let mut files: Vec<D> = vec![];
    for f in header.file_names() {
        let idd = file_id(dwarf, unit, header, f);
        let (path, dir) = match idd {
            D::L(mut v) if v.len() == 2 => {
                let d = v.pop().unwrap();
                let p = v.pop().unwrap();
                (p, d)
            }
            other => (other, D::Nil),
        };
        files.push(rec(vec![
            ("path", path),
            ("dir", dir),
            ("time", D::U(f.timestamp())),
            ("size", D::U(f.size())),
            ("md5", D::Bytes(f.md5().to_vec())),
            (
                "source",
                match f.source() {
                    Some(sv) => line_string(dwarf, unit, sv),
                    None => D::Nil,
                },
            ),
        ]));
    }
    sort_dedup(&mut dirs);
    sort_dedup(&mut files);
    rec(vec![("dirs", D::L(dirs)), ("files", D::L(files)), ("rows", D::L(rows_out))])
}

fn sort_dedup(v: &mut Vec<D>) {
    let mut keyed: Vec<(String, D)> = v.drain(..).map(|d| (format!("{:?}", d), d)).collect();
    keyed.sort_by(|a, b| a.0.cmp(&b.0));
    keyed.dedup_by(|a, b| a.0 == b.0);
    v.extend(keyed.into_iter().map(|(_, d)| d));
}

// ---------------------------------------------------------------- frames

fn pointer(p: gimli::Pointer) -> D {
    match p {
        gimli::Pointer::Direct(x) => tag("direct", D::U(x)),
        gimli::Pointer::Indirect(x) => tag("indirect", D::U(x)),
    }
}

fn cie_fields<R: Reader>(cie: &gimli::CommonInformationEntry<R>) -> D {
    rec(vec![
        ("version", D::U(cie.version() as u64)),
        ("format", D::U(if cie.encoding().format == gimli::Format::Dwarf64 { 64 } else { 32 })),
        ("address_size", D::U(cie.address_size() as u64)),
        ("code_align", D::U(cie.code_alignment_factor())),
        ("data_align", D::I(cie.data_alignment_factor())),
        ("ra", reg(cie.return_address_register())),
        (
            "personality",
            match cie.personality_with_encoding() {
                Some((enc, p)) => D::L(vec![D::U(enc.0 as u64), pointer(p)]),
                None => D::Nil,
            },
        ),
        (
            "lsda_enc",
            match cie.lsda_encoding() {
                Some(e) => D::U(e.0 as u64),
                None => D::Nil,
            },
        ),
        // absent 'R' augmentation == DW_EH_PE_absptr
        ("fde_enc", D::U(cie.fde_address_encoding().map(|e| e.0 as u64).unwrap_or(0))),
        ("signal", D::B(cie.is_signal_trampoline())),
    ])
}

/// Dump every FDE of a frame section (CIE fields inlined) with its unwind rows.
/// `bases` must be the same for the dumps that are compared.
pub fn dump_frame<R, S>(section: &S, bases: &BaseAddresses) -> D
where
    R: Reader,
    S: UnwindSection<R>,
    S::Offset: UnwindOffset<R::Offset>,
{
    dump_frame_with(section, bases, &DumpOpts::default())
}

pub fn dump_frame_with<R, S>(section: &S, bases: &BaseAddresses, opts: &DumpOpts) -> D
where
    R: Reader,
    S: UnwindSection<R>,
    S::Offset: UnwindOffset<R::Offset>,
{
    let mut fdes = vec![];
    let mut entries = section.entries(bases);
    let mut ctx: Box<UnwindContext<R::Offset>> = Box::new(UnwindContext::new());
    let mut n = 0usize;
    loop {
        n += 1;
        if n > opts.limit {
            fdes.push(D::E("DumpLimit".into()));
            break;
        }
        let entry = match entries.next() {
            Ok(Some(e)) => e,
            Ok(None) => break,
            Err(e) => {
                fdes.push(err(&e));
                break;
            }
        };
        let partial = match entry {
            CieOrFde::Cie(_) => continue,
            CieOrFde::Fde(p) => p,
        };
        let fde = match partial.parse(S::cie_from_offset) {
            Ok(f) => f,
            Err(e) => {
                fdes.push(tag("fde", err(&e)));
                continue;
            }
        };
        let encoding = fde.cie().encoding();
        let uexpr = |x: &gimli::UnwindExpression<R::Offset>| -> D {
            match x.get(section) {
                Ok(e) => expr_ops(&e, encoding, None, 0),
                Err(e) => err(&e),
            }
        };
        let mut rows = vec![];
        match fde.rows(section, bases, &mut ctx) {
            Err(e) => rows.push(err(&e)),
            Ok(mut table) => loop {
                if rows.len() >= opts.limit {
                    rows.push(D::E("DumpLimit".into()));
                    break;
                }
                match table.next_row() {
                    Ok(None) => break,
                    Err(e) => {
                        rows.push(err(&e));
                        break;
                    }
                    Ok(Some(row)) => {
                        let cfa = match row.cfa() {
                            CfaRule::RegisterAndOffset { register, offset } => tag("reg_offset", D::L(vec![reg(*register), D::I(*offset)])),
                            CfaRule::Expression(x) => uexpr(x),
                        };
                        let mut rules: Vec<(u16, D)> = vec![];
                        for (r, rule) in row.registers() {
                            let d = match rule {
                                RegisterRule::Undefined => s("undefined"),
                                RegisterRule::SameValue => s("same_value"),
                                RegisterRule::Offset(o) => tag("offset", D::I(*o)),
                                RegisterRule::ValOffset(o) => tag("val_offset", D::I(*o)),
                                RegisterRule::Register(q) => tag("register", reg(*q)),
                                RegisterRule::Expression(x) => tag("expression", uexpr(x)),
                                RegisterRule::ValExpression(x) => tag("val_expression", uexpr(x)),
                                RegisterRule::Architectural => s("architectural"),
                                RegisterRule::Constant(v) => tag("constant", D::U(*v)),
                            };
                            rules.push((r.0, d));
                        }
                        rules.sort_by_key(|x| x.0);
                        let rules = D::L(rules.into_iter().map(|(r, d)| D::L(vec![D::U(r as u64), d])).collect());
                        let args = D::U(row.saved_args_size());
                        // adjacent rows with identical contents are one row (how a run of
                        // advance_loc instructions is split is encoding)
                        let mut merged = false;
                        if let Some(D::R(prev)) = rows.last_mut() {
                            if prev.len() == 5
                                && prev[1].1 == D::U(row.start_address())
                                && prev[2].1 == cfa
                                && prev[3].1 == rules
                                && prev[4].1 == args
                                && row.end_address() >= row.start_address()
                            {
                                prev[1].1 = D::U(row.end_address());
                                merged = true;
                            }
                        }
                        if !merged {
                            rows.push(rec(vec![
                                ("start", D::U(row.start_address())),
                                ("end", D::U(row.end_address())),
                                ("cfa", cfa),
                                ("rules", rules),
                                ("args_size", args),
                            ]));
                        }
                    }
                }
            },
        }
        fdes.push(rec(vec![
            ("cie", cie_fields(fde.cie())),
            ("start", D::U(fde.initial_address())),
            ("len", D::U(fde.len())),
            (
                "lsda",
                match fde.lsda() {
                    Some(p) => pointer(p),
                    None => D::Nil,
                },
            ),
            ("rows", D::L(rows)),
        ]));
    }
    rec(vec![("fdes", D::L(fdes))])
}

//! Compiler-built corpus shared by the corpus complements of C04 / C05 / C06.
//!
//! Small C and C++ programs (embedded below) are compiled *and linked* at check time with
//! gcc / clang under a list of configurations; the executable is cached under
//! `<ctx.work>/corpus/<hash of compiler version + flags + sources>/` so that the two build
//! profiles, the 16 shards and the three properties share one build.  External tools
//! (`llvm-dwarfdump`, `readelf`) are run with a timeout and their text output is cached
//! next to the executable.  Sections are extracted with the `object` crate.
//!
//! Nothing in here judges gimli: every failure of a compiler, linker or dump tool is
//! reported to the caller, which turns it into `ctx.inconclusive`, never into a violation.
//!
//! The second half of the file holds the parser for `llvm-dwarfdump --eh-frame
//! --debug-frame` text, which C05 (entry fields) and C06 (interpreted rows) both use.

use crate::rt::{fnv, fnv_add, Ctx};
use object::{Object, ObjectSection};
use std::collections::HashMap;
use std::path::{Path, PathBuf};
use std::process::{Command, Stdio};
use std::sync::Mutex;
use std::time::{Duration, Instant};

// ---------------------------------------------------------------- sources

pub const UTIL_H: &str = r#"#ifndef UTIL_H
#define UTIL_H
struct point { int x, y; };
static inline int clampi(int v, int lo, int hi)
{
    if (v < lo)
        return lo;
    if (v > hi)
        return hi;
    return v;
}
#define SQ(x) ((x) * (x))
static inline int dist2(const struct point *a, const struct point *b)
{
    int dx = a->x - b->x;
    int dy = a->y - b->y;
    return SQ(dx) + SQ(dy);
}
#endif
"#;

pub const A_C: &str = r#"#include "inc/util.h"
struct node { struct node *next; struct point p; union { int i; float f; } u; };
enum color { RED, GREEN, BLUE };
typedef int (*fn_t)(struct node *, enum color);
extern int other(struct point *p);
extern int classify(int v);
volatile int sink;
static inline int helper(int a) { int r = 0; { int k = a * 2; r += k; { int m = k + 1; r += m; } } return r; }
int walk(struct node *n, enum color c)
{
    int s = 0;
    for (; n; n = n->next) {
        int t = n->p.x + helper(n->p.y);
        if (c == RED) {
            int q = t * 2;
            s += q;
        } else
            s += t;
        s = clampi(s, -1000, 1000);
    }
    return s;
}
int arr[10];
static int fill(int n)
{
    int i, acc = 0;
    for (i = 0; i < 10; i++) { arr[i] = i * n; acc += arr[i]; if (acc > 50) break; }
    while (n-- > 0) acc ^= n;
    return acc;
}
static void many_regs(long a, long b, long c, long d, long e, long f)
{
    long v[32]; int i;
    for (i = 0; i < 32; i++) v[i] = a * i + b;
    for (i = 0; i < 32; i++) sink += (int)(v[i] ^ c ^ d ^ e ^ f);
}
int unused_entry(int q)
{
    int i, r = q;
    for (i = 0; i < q; i++)
        r += classify(i) * helper(i);
    return r;
}
int main(int argc, char **argv)
{
    struct node a = {0, {1,2}, {3}};
    struct node b = {&a, {4,5}, {6}};
    fn_t f = walk;
    (void)argv;
    many_regs(argc, 2, 3, 4, 5, 6);
    return f(&b, argc > 1 ? RED : GREEN) + arr[argc & 7] + other(&a.p) + fill(argc) + classify(argc) + dist2(&a.p, &b.p);
}
"#;

pub const B_C: &str = r#"#include "inc/util.h"
struct box { struct point lo, hi; const char *name; long tags[4]; };
struct empty_user { struct { int a; struct { short b, c; } in; } nest; void (*cb)(void); };
static int area(const struct box *b)
{
    int w = b->hi.x - b->lo.x;
    int h = b->hi.y - b->lo.y;
    {
        int a = w * h;
        if (a < 0) { int n = -a; return n; }
        return a;
    }
}
int classify(int v)
{
    switch (v) {
    case 0: return 10;
    case 1: return 21;
    case 2: return 33;
    case 3: return 47;
    case 4: return 59;
    case 5: return 61;
    case 9: return 2;
    default: break;
    }
    return clampi(v, 0, 7);
}
static int rec(int n, int acc) { if (n <= 0) return acc; return rec(n - 1, acc + n) + 1; }
int never_called(int z)
{
    int k = 0;
    while (z > 0) { k += classify(z); z -= 2; }
    return k;
}
int other(struct point *p)
{
    struct box b = { *p, { p->x + 3, p->y + 4 }, "b", {0} };
    struct empty_user e = {{1,{2,3}},0};
    struct point o = {0, 0};
    return area(&b) + e.nest.in.b + rec(p->x, 0) + dist2(p, &o);
}
"#;

/// Templates, inlining, virtual calls, destructors that run during unwinding, throw /
/// catch: `.eh_frame` gets CIEs with "zPLR" augmentation and FDEs with LSDA pointers.
pub const C_CPP: &str = r#"#include "inc/util.h"
extern "C" int classify_cpp(int v);
namespace geo {
template <typename T> struct Vec2 {
    T x, y;
    Vec2(T a, T b) : x(a), y(b) {}
    Vec2 operator+(const Vec2 &o) const { return Vec2(x + o.x, y + o.y); }
    T dot(const Vec2 &o) const { return x * o.x + y * o.y; }
};
template <typename T, int N> struct Arr {
    T v[N];
    Arr() { for (int i = 0; i < N; i++) v[i] = T(); }
    T &at(int i) { if (i < 0 || i >= N) throw i; return v[i]; }
    int size() const { return N; }
};
template <typename T> T tmax(T a, T b) { return a > b ? a : b; }
}
struct Guard {
    int *p;
    explicit Guard(int *q) : p(q) { ++*p; }
    ~Guard() { --*p; }
};
struct Base { virtual ~Base() {} virtual int f(int a) { return a + 1; } };
struct Derived : Base { int k; explicit Derived(int q) : k(q) {} int f(int a) override { if (a > k) throw Derived(a); return a * k; } };
struct Err { int code; const char *what; };
static int depth;
__attribute__((noinline)) static int risky(int n)
{
    Guard g(&depth);
    geo::Arr<int, 4> a;
    if (n > 2)
        throw Err{n, "too big"};
    a.at(n) = n * 3;
    return a.at(n) + a.size();
}
__attribute__((noinline)) static int nested(int n)
{
    Guard g(&depth);
    int r = 0;
    try {
        r += risky(n);
        Guard h(&depth);
        r += risky(n + 1);
    } catch (const Err &e) {
        r += e.code;
        try { r += risky(-1); } catch (int i) { r -= i; }
    }
    return r;
}
static inline int inl(int a) { return clampi(a, 1, 9) * 2; }
__attribute__((noinline)) static long big_frame(int n)
{
    volatile long buf[600];
    long s = 0;
    for (int i = 0; i < 600; i++) buf[i] = i * n;
    for (int i = 0; i < 600; i += 7) s += buf[i];
    return s;
}
int classify_cpp(int v)
{
    Derived d(v);
    Base *b = &d;
    int r = 0;
    try { r = b->f(v + (v & 1)); } catch (const Derived &e) { r = e.k; } catch (...) { r = -1; }
    return r + inl(v);
}
int main(int argc, char **)
{
    geo::Vec2<int> a(argc, 2), b(3, 4);
    geo::Vec2<double> c(1.5, argc), d(0.5, 2.0);
    int r = (a + b).dot(b) + (int)(c + d).dot(d);
    r += geo::tmax(argc, 3) + (int)geo::tmax(2.5, (double)argc);
    for (int i = 0; i < 5; i++) {
        try { r += nested(i); } catch (const Err &e) { r ^= e.code; } catch (int x) { r += x; }
    }
    return r + classify_cpp(argc) + depth + (int)(big_frame(argc) & 1);
}
"#;

// ---------------------------------------------------------------- configurations

#[derive(Clone, Copy, Debug, PartialEq, Eq)]
pub enum Lang {
    C,
    Cpp,
}

#[derive(Clone, Debug)]
pub struct Config {
    /// "gcc" or "clang" (the C++ driver is derived from it)
    pub cc: &'static str,
    pub lang: Lang,
    pub flags: Vec<&'static str>,
    /// 32-bit build: `-m32 -nostdlib -static -Wl,-e,main` (there is no 32-bit C runtime
    /// on the machine; the C sources do not need one).  C only.
    pub m32: bool,
}

impl Config {
    pub fn driver(&self) -> &'static str {
        match (self.cc, self.lang) {
            ("gcc", Lang::C) => "gcc",
            ("gcc", Lang::Cpp) => "g++",
            (_, Lang::C) => "clang",
            (_, Lang::Cpp) => "clang++",
        }
    }
    pub fn label(&self) -> String {
        format!("{}{} {} [{}]", self.driver(), if self.m32 { " -m32" } else { "" }, self.flags.join(" "), if self.lang == Lang::C { "a.c b.c" } else { "c.cpp" })
    }
    pub fn has(&self, flag: &str) -> bool {
        self.flags.iter().any(|f| *f == flag)
    }
    fn all_args(&self) -> Vec<String> {
        let mut v: Vec<String> = vec!["-g".into()];
        v.extend(self.flags.iter().map(|s| s.to_string()));
        if self.m32 {
            for f in ["-m32", "-nostdlib", "-static", "-fno-stack-protector", "-Wl,-e,main", "-Wl,--eh-frame-hdr"] {
                v.push(f.into());
            }
        }
        match self.lang {
            Lang::C => {
                v.push("a.c".into());
                v.push("b.c".into());
            }
            Lang::Cpp => v.push("c.cpp".into()),
        }
        v.push("-o".into());
        v.push("prog".into());
        v
    }
}

fn cfg(cc: &'static str, lang: Lang, flags: &[&'static str]) -> Config {
    Config { cc, lang, flags: flags.to_vec(), m32: false }
}

const NO_EH: &str = "-fno-asynchronous-unwind-tables";

/// The quick tier uses the first four configurations; the thorough tier all of them.
/// The indices are the case indices of the `corpus` stream of each property.
pub fn configs(quick: bool) -> Vec<Config> {
    use Lang::*;
    let mut v = vec![
        // .eh_frame with "zPLR" CIEs, LSDA pointers; DWARF 5 line table of gas/gcc
        cfg("gcc", Cpp, &["-gdwarf-5", "-O2"]),
        // .debug_frame (CIE version 4) next to the runtime's .eh_frame; clang's DWARF 5 line
        // tables (MD5, line_strp forms)
        cfg("clang", C, &["-gdwarf-5", "-O2", NO_EH]),
        // 32-bit: address size 4, data alignment -4, i386 register numbering
        Config { cc: "gcc", lang: C, flags: vec!["-gdwarf-3", "-O2"], m32: true },
        // v4 line table, -O0 prologue_end rows, one sequence per function; "zPLR" CIE of clang
        cfg("clang", Cpp, &["-gdwarf-4", "-O0"]),
    ];
    if quick {
        return v;
    }
    for cc in ["gcc", "clang"] {
        for ver in ["-gdwarf-2", "-gdwarf-3", "-gdwarf-4", "-gdwarf-5"] {
            for opt in ["-O0", "-O2"] {
                for lang in [C, Cpp] {
                    v.push(cfg(cc, lang, &[ver, opt]));
                }
            }
        }
    }
    // -gno-as-loc-support: gcc writes .debug_line itself (in the 64-bit format under
    // -gdwarf64; gas 2.40 only writes 32-bit line tables)
    v.push(cfg("gcc", C, &["-gdwarf-4", "-gdwarf64", "-O1", "-gno-as-loc-support"]));
    v.push(cfg("gcc", Cpp, &["-gdwarf-5", "-gdwarf64", "-O2", "-gno-as-loc-support"]));
    v.push(cfg("gcc", C, &["-gdwarf-4", "-O1", "-fdebug-types-section"]));
    v.push(cfg("gcc", Cpp, &["-gdwarf-5", "-O1", "-fdebug-types-section"]));
    v.push(cfg("clang", Cpp, &["-gdwarf-4", "-O1", "-fdebug-types-section"]));
    v.push(cfg("clang", C, &["-gdwarf-5", "-O1", "-fdebug-types-section"]));
    // .debug_frame
    v.push(cfg("gcc", C, &["-gdwarf-4", "-O2", NO_EH]));
    v.push(cfg("gcc", C, &["-gdwarf-2", "-O0", NO_EH]));
    v.push(cfg("clang", C, &["-gdwarf-2", "-O0", NO_EH]));
    v.push(cfg("clang", C, &["-gdwarf-4", "-O1", NO_EH]));
    // 32-bit
    v.push(Config { cc: "clang", lang: C, flags: vec!["-gdwarf-5", "-O1", NO_EH], m32: true });
    v.push(Config { cc: "clang", lang: C, flags: vec!["-gdwarf-4", "-O2"], m32: true });
    v.push(Config { cc: "gcc", lang: C, flags: vec!["-gdwarf-5", "-O0", NO_EH], m32: true });
    v.push(Config { cc: "gcc", lang: C, flags: vec!["-gdwarf-2", "-O1", "-fomit-frame-pointer"], m32: true });
    // discarded sections: the linker leaves tombstoned sequences / drops FDEs
    v.push(cfg("gcc", C, &["-gdwarf-4", "-O1", "-ffunction-sections", "-Wl,--gc-sections"]));
    v.push(cfg("clang", C, &["-gdwarf-5", "-O2", "-ffunction-sections", "-Wl,--gc-sections"]));
    // frame pointers / no red zone / column info off: different CFI and line programs
    v.push(cfg("gcc", Cpp, &["-gdwarf-4", "-O1", "-fno-omit-frame-pointer"]));
    v.push(cfg("clang", Cpp, &["-gdwarf-4", "-O2", "-fno-omit-frame-pointer", "-gno-column-info"]));
    v.push(cfg("gcc", C, &["-gdwarf-5", "-Os", "-fno-inline"]));
    v.push(cfg("gcc", Cpp, &["-gdwarf-3", "-O2", "-gno-as-loc-support"]));
    v.push(cfg("gcc", C, &["-gdwarf-5", "-gdwarf64", "-O0"]));
    v.push(cfg("clang", Cpp, &["-gdwarf-5", "-O3", "-fdebug-info-for-profiling"]));
    v
}

// ---------------------------------------------------------------- tool runner

/// Run `tool args..` in `cwd` with stdout and stderr redirected to files; kill it after
/// `timeout`.  `Err` carries a short reason (tool missing, non-zero exit, timeout).
pub fn run_tool(tool: &str, args: &[String], cwd: &Path, stdout_to: &Path, timeout: Duration) -> Result<(), String> {
    let out = std::fs::File::create(stdout_to).map_err(|e| format!("{}: {e}", stdout_to.display()))?;
    let err_path = stdout_to.with_extension("stderr");
    let err = std::fs::File::create(&err_path).map_err(|e| format!("{}: {e}", err_path.display()))?;
    let mut child = Command::new(tool)
        .args(args)
        .current_dir(cwd)
        .stdin(Stdio::null())
        .stdout(Stdio::from(out))
        .stderr(Stdio::from(err))
        .spawn()
        .map_err(|e| format!("{tool}: cannot start: {e}"))?;
    let t0 = Instant::now();
    loop {
        match child.try_wait() {
            Ok(Some(st)) => {
                if st.success() {
                    let _ = std::fs::remove_file(&err_path);
                    return Ok(());
                }
                let msg: String = std::fs::read_to_string(&err_path).unwrap_or_default().chars().take(300).collect();
                return Err(format!("{tool}: exit {:?}: {}", st.code(), msg.replace('\n', " | ")));
            }
            Ok(None) => {
                if t0.elapsed() > timeout {
                    let _ = child.kill();
                    let _ = child.wait();
                    return Err(format!("{tool}: timeout after {} s", timeout.as_secs()));
                }
                std::thread::sleep(Duration::from_millis(5));
            }
            Err(e) => return Err(format!("{tool}: wait: {e}")),
        }
    }
}

static VERSIONS: Mutex<Option<HashMap<String, String>>> = Mutex::new(None);

/// First line of `<tool> --version` (part of the cache key), "?" when the tool is missing.
pub fn tool_version(tool: &str) -> String {
    if let Ok(mut g) = VERSIONS.lock() {
        let m = g.get_or_insert_with(HashMap::new);
        if let Some(v) = m.get(tool) {
            return v.clone();
        }
        let v = Command::new(tool)
            .arg("--version")
            .stdin(Stdio::null())
            .stderr(Stdio::null())
            .output()
            .ok()
            .map(|o| String::from_utf8_lossy(&o.stdout).lines().next().unwrap_or("").to_string())
            .unwrap_or_else(|| "?".to_string());
        m.insert(tool.to_string(), v.clone());
        return v;
    }
    "?".to_string()
}

// ---------------------------------------------------------------- build with cache

fn config_hash(c: &Config) -> u64 {
    let mut h = fnv(b"gv-corpus-v3");
    h = fnv_add(h, c.driver().as_bytes());
    h = fnv_add(h, tool_version(c.driver()).as_bytes());
    for a in c.all_args() {
        h = fnv_add(h, a.as_bytes());
    }
    h = fnv_add(h, UTIL_H.as_bytes());
    match c.lang {
        Lang::C => {
            h = fnv_add(h, A_C.as_bytes());
            h = fnv_add(h, B_C.as_bytes());
        }
        Lang::Cpp => h = fnv_add(h, C_CPP.as_bytes()),
    }
    h
}

fn build_in(dir: &Path, c: &Config) -> Result<(), String> {
    let _ = std::fs::remove_dir_all(dir);
    std::fs::create_dir_all(dir.join("inc")).map_err(|e| format!("mkdir {}: {e}", dir.display()))?;
    let w = |name: &str, text: &str| std::fs::write(dir.join(name), text).map_err(|e| format!("write {name}: {e}"));
    w("inc/util.h", UTIL_H)?;
    match c.lang {
        Lang::C => {
            w("a.c", A_C)?;
            w("b.c", B_C)?;
        }
        Lang::Cpp => w("c.cpp", C_CPP)?,
    }
    run_tool(c.driver(), &c.all_args(), dir, &dir.join("build.log"), Duration::from_secs(180))?;
    if !dir.join("prog").is_file() {
        return Err("no executable produced".into());
    }
    w("ok", &c.label())?;
    Ok(())
}

/// Compile + link configuration `c` (or find it in the cache); returns the path of the
/// executable.  `Err` = the toolchain could not produce it (the caller reports it as
/// inconclusive).
pub fn build_config(work: &Path, c: &Config) -> Result<PathBuf, String> {
    let root = work.join("corpus");
    std::fs::create_dir_all(&root).map_err(|e| format!("mkdir {}: {e}", root.display()))?;
    let key = format!("{:016x}", config_hash(c));
    let dir = root.join(&key);
    let prog = dir.join("prog");
    let ready = |d: &Path| d.join("ok").is_file() && d.join("prog").is_file();
    if ready(&dir) {
        return Ok(prog);
    }
    // One builder at a time per configuration: the lock is a directory (atomic create).
    // A lock older than 200 s is considered stale; a waiter gives up after 240 s and
    // builds on its own.
    let lock = root.join(format!("{key}.lock"));
    let t0 = Instant::now();
    let mut have_lock = false;
    loop {
        if ready(&dir) {
            return Ok(prog);
        }
        match std::fs::create_dir(&lock) {
            Ok(()) => {
                have_lock = true;
                break;
            }
            Err(_) => {
                let stale = std::fs::metadata(&lock).and_then(|m| m.modified()).ok().and_then(|m| m.elapsed().ok()).map(|d| d > Duration::from_secs(200)).unwrap_or(false);
                if stale || t0.elapsed() > Duration::from_secs(240) {
                    break;
                }
                std::thread::sleep(Duration::from_millis(25));
            }
        }
    }
    let r = if ready(&dir) {
        Ok(())
    } else if have_lock {
        build_in(&dir, c)
    } else {
        // no lock: build privately, then publish by rename (may lose the race, fine)
        let tmp = root.join(format!("{key}.tmp{}", std::process::id()));
        let r = build_in(&tmp, c);
        if r.is_ok() && !ready(&dir) {
            let _ = std::fs::remove_dir_all(&dir);
            let _ = std::fs::rename(&tmp, &dir);
        }
        let _ = std::fs::remove_dir_all(&tmp);
        r
    };
    if have_lock {
        let _ = std::fs::remove_dir(&lock);
    }
    r.map_err(|e| format!("{}: {e}", c.label()))?;
    if ready(&dir) {
        Ok(prog)
    } else {
        Err(format!("{}: build directory vanished", c.label()))
    }
}

/// `build_config` with the failure recorded as inconclusive.
pub fn build(ctx: &mut Ctx, c: &Config) -> Option<PathBuf> {
    match build_config(&ctx.work.clone(), c) {
        Ok(p) => Some(p),
        Err(e) => {
            ctx.inconclusive(&format!("corpus: build failed: {e}"));
            None
        }
    }
}

/// Text output of `tool args.. prog`, cached as `<dir of prog>/<key>.txt`.
pub fn dump_text(prog: &Path, key: &str, tool: &str, args: &[&str]) -> Result<String, String> {
    let dir = prog.parent().ok_or("no parent directory")?;
    let path = dir.join(format!("{key}.txt"));
    if !path.is_file() {
        let tmp = dir.join(format!("{key}.tmp{}", std::process::id()));
        let mut a: Vec<String> = args.iter().map(|s| s.to_string()).collect();
        a.push("prog".into());
        let r = run_tool(tool, &a, dir, &tmp, Duration::from_secs(60));
        if let Err(e) = r {
            let _ = std::fs::remove_file(&tmp);
            return Err(e);
        }
        std::fs::rename(&tmp, &path).map_err(|e| format!("rename: {e}"))?;
    }
    let bytes = std::fs::read(&path).map_err(|e| format!("{}: {e}", path.display()))?;
    Ok(String::from_utf8_lossy(&bytes).to_string())
}

/// `dump_text` with the failure recorded as inconclusive.
pub fn dump(ctx: &mut Ctx, prog: &Path, key: &str, tool: &str, args: &[&str]) -> Option<String> {
    match dump_text(prog, key, tool, args) {
        Ok(t) => Some(t),
        Err(e) => {
            ctx.inconclusive(&format!("corpus: {tool} {}: {e}", args.join(" ")));
            None
        }
    }
}

// ---------------------------------------------------------------- sections

#[derive(Clone, Debug)]
pub struct Sec {
    pub name: String,
    pub addr: u64,
    pub data: Vec<u8>,
}

#[derive(Clone, Debug)]
pub struct Obj {
    pub is64: bool,
    pub le: bool,
    pub sections: Vec<Sec>,
}

static EMPTY: &[u8] = &[];

impl Obj {
    pub fn load(path: &Path) -> Result<Obj, String> {
        let data = std::fs::read(path).map_err(|e| format!("{}: {e}", path.display()))?;
        let file = object::File::parse(&*data).map_err(|e| format!("object: {e}"))?;
        let mut sections = vec![];
        for s in file.sections() {
            let Ok(name) = s.name() else { continue };
            if name.is_empty() {
                continue;
            }
            // uncompressed_data would also handle SHF_COMPRESSED; the corpus is not compressed
            let Ok(d) = s.data() else { continue };
            sections.push(Sec { name: name.to_string(), addr: s.address(), data: d.to_vec() });
        }
        Ok(Obj { is64: file.is_64(), le: file.is_little_endian(), sections })
    }
    pub fn sec(&self, name: &str) -> Option<&Sec> {
        self.sections.iter().find(|s| s.name == name)
    }
    pub fn data(&self, name: &str) -> &[u8] {
        self.sec(name).map(|s| &s.data[..]).unwrap_or(EMPTY)
    }
    pub fn addr(&self, name: &str) -> u64 {
        self.sec(name).map(|s| s.addr).unwrap_or(0)
    }
    pub fn address_size(&self) -> u8 {
        if self.is64 {
            8
        } else {
            4
        }
    }
    pub fn endian(&self) -> gimli::RunTimeEndian {
        if self.le {
            gimli::RunTimeEndian::Little
        } else {
            gimli::RunTimeEndian::Big
        }
    }
}

pub fn load_obj(ctx: &mut Ctx, prog: &Path) -> Option<Obj> {
    match Obj::load(prog) {
        Ok(o) => Some(o),
        Err(e) => {
            ctx.inconclusive(&format!("corpus: cannot read executable: {e}"));
            None
        }
    }
}

// ---------------------------------------------------------------- small text helpers

pub fn parse_hex(s: &str) -> Option<u64> {
    let s = s.trim();
    let s = s.strip_prefix("0x").unwrap_or(s);
    if s.is_empty() || s.len() > 16 {
        return None;
    }
    u64::from_str_radix(s, 16).ok()
}

/// Value after `key` up to the end of the line, trimmed.
pub fn after<'a>(line: &'a str, key: &str) -> Option<&'a str> {
    let i = line.find(key)?;
    Some(line[i + key.len()..].trim())
}

// ---------------------------------------------------------------- llvm-dwarfdump --eh-frame / --debug-frame

#[derive(Clone, Debug, PartialEq, Eq, Default)]
pub struct LCie {
    pub offset: u64,
    pub length: u64,
    pub id: u64,
    pub fmt64: bool,
    pub version: u64,
    pub augmentation: String,
    pub address_size: Option<u64>,
    pub segment_size: Option<u64>,
    pub code_align: u64,
    pub data_align: i64,
    pub ra_reg: u64,
    pub personality: Option<u64>,
    pub aug_data: Option<Vec<u8>>,
    pub instructions: Vec<String>,
    /// the "CFA=...: reg=..." line
    pub row: Option<String>,
}

#[derive(Clone, Debug, PartialEq, Eq, Default)]
pub struct LFde {
    pub offset: u64,
    pub length: u64,
    pub cie_pointer: u64,
    /// `None` when llvm printed `<invalid offset>`
    pub cie: Option<u64>,
    pub pc_begin: u64,
    pub pc_end: u64,
    pub fmt64: bool,
    pub lsda: Option<u64>,
    pub instructions: Vec<String>,
    /// (address, text after "0x...: ")
    pub rows: Vec<(u64, String)>,
}

#[derive(Clone, Debug, PartialEq, Eq)]
pub enum LEntry {
    Cie(LCie),
    Fde(LFde),
}

impl LEntry {
    pub fn offset(&self) -> u64 {
        match self {
            LEntry::Cie(c) => c.offset,
            LEntry::Fde(f) => f.offset,
        }
    }
}

#[derive(Clone, Debug, Default)]
pub struct LFrames {
    pub debug_frame: Vec<LEntry>,
    pub eh_frame: Vec<LEntry>,
}

/// Parse `llvm-dwarfdump --eh-frame --debug-frame` (LLVM 14 layout).
pub fn parse_llvm_frames(text: &str) -> Result<LFrames, String> {
    let mut out = LFrames::default();
    let mut cur: Option<&mut Vec<LEntry>> = None;
    for line in text.lines() {
        if line.starts_with(".debug_frame contents:") {
            cur = Some(&mut out.debug_frame);
            continue;
        }
        if line.starts_with(".eh_frame contents:") {
            cur = Some(&mut out.eh_frame);
            continue;
        }
        let Some(list) = cur.as_deref_mut() else { continue };
        if line.trim().is_empty() {
            continue;
        }
        let first = line.as_bytes()[0];
        if first.is_ascii_hexdigit() {
            // "<offset> <length> <id> CIE" or "<offset> <length> <cieptr> FDE cie=<x> pc=<a>...<b>"
            let toks: Vec<&str> = line.split_whitespace().collect();
            if toks.len() >= 2 && toks[1] == "ZERO" {
                continue;
            }
            if toks.len() < 4 {
                return Err(format!("unrecognised entry line: {line}"));
            }
            let offset = parse_hex(toks[0]).ok_or_else(|| format!("offset: {line}"))?;
            let length = parse_hex(toks[1]).ok_or_else(|| format!("length: {line}"))?;
            let id = parse_hex(toks[2]).ok_or_else(|| format!("id: {line}"))?;
            match toks[3] {
                "CIE" => list.push(LEntry::Cie(LCie { offset, length, id, ..Default::default() })),
                "FDE" => {
                    if toks.len() < 6 {
                        return Err(format!("short FDE line: {line}"));
                    }
                    let cie = toks[4].strip_prefix("cie=").ok_or_else(|| format!("cie=: {line}"))?;
                    let pc = toks[5].strip_prefix("pc=").ok_or_else(|| format!("pc=: {line}"))?;
                    let (a, b) = pc.split_once("...").ok_or_else(|| format!("pc range: {line}"))?;
                    list.push(LEntry::Fde(LFde {
                        offset,
                        length,
                        cie_pointer: id,
                        cie: parse_hex(cie),
                        pc_begin: parse_hex(a).ok_or_else(|| format!("pc begin: {line}"))?,
                        pc_end: parse_hex(b).ok_or_else(|| format!("pc end: {line}"))?,
                        ..Default::default()
                    }));
                }
                _ => return Err(format!("unrecognised entry kind: {line}")),
            }
            continue;
        }
        let t = line.trim();
        let Some(last) = list.last_mut() else {
            return Err(format!("text before the first entry: {line}"));
        };
        let num = |key: &str| -> Result<Option<u64>, String> {
            match after(t, key) {
                Some(v) if t.starts_with(key) => v.parse::<u64>().map(Some).map_err(|_| format!("number: {line}")),
                _ => Ok(None),
            }
        };
        if t.starts_with("Format:") {
            let f64 = t.ends_with("DWARF64");
            match last {
                LEntry::Cie(c) => c.fmt64 = f64,
                LEntry::Fde(f) => f.fmt64 = f64,
            }
            continue;
        }
        if t.starts_with("DW_CFA_") {
            match last {
                LEntry::Cie(c) => c.instructions.push(t.to_string()),
                LEntry::Fde(f) => f.instructions.push(t.to_string()),
            }
            continue;
        }
        match last {
            LEntry::Cie(c) => {
                if let Some(v) = num("Version:")? {
                    c.version = v;
                } else if t.starts_with("Augmentation:") {
                    let v = after(t, "Augmentation:").unwrap_or("");
                    c.augmentation = v.trim_matches('"').to_string();
                } else if let Some(v) = num("Address size:")? {
                    c.address_size = Some(v);
                } else if let Some(v) = num("Segment desc size:")? {
                    c.segment_size = Some(v);
                } else if let Some(v) = num("Code alignment factor:")? {
                    c.code_align = v;
                } else if t.starts_with("Data alignment factor:") {
                    c.data_align = after(t, "Data alignment factor:").unwrap_or("").parse::<i64>().map_err(|_| format!("data alignment: {line}"))?;
                } else if let Some(v) = num("Return address column:")? {
                    c.ra_reg = v;
                } else if t.starts_with("Personality Address:") {
                    c.personality = Some(parse_hex(after(t, "Personality Address:").unwrap_or("")).ok_or_else(|| format!("personality: {line}"))?);
                } else if t.starts_with("Augmentation data:") {
                    let mut b = vec![];
                    for x in after(t, "Augmentation data:").unwrap_or("").split_whitespace() {
                        b.push(u8::from_str_radix(x, 16).map_err(|_| format!("augmentation data: {line}"))?);
                    }
                    c.aug_data = Some(b);
                } else if t.starts_with("CFA=") {
                    c.row = Some(t.to_string());
                } else {
                    return Err(format!("unrecognised CIE line: {line}"));
                }
            }
            LEntry::Fde(f) => {
                if t.starts_with("LSDA Address:") {
                    f.lsda = Some(parse_hex(after(t, "LSDA Address:").unwrap_or("")).ok_or_else(|| format!("lsda: {line}"))?);
                } else if t.starts_with("0x") {
                    let (a, rest) = t.split_once(": ").ok_or_else(|| format!("row: {line}"))?;
                    f.rows.push((parse_hex(a).ok_or_else(|| format!("row address: {line}"))?, rest.to_string()));
                } else {
                    return Err(format!("unrecognised FDE line: {line}"));
                }
            }
        }
    }
    Ok(out)
}

// ---------------------------------------------------------------- register names

/// DWARF register number of a register name as printed by readelf (lower case) or
/// llvm-dwarfdump (upper case) for x86-64 / i386.  Also accepts `rN` / `regN`.
pub fn reg_number(name: &str, is64: bool) -> Option<u16> {
    let n = name.to_ascii_lowercase();
    const X64: [&str; 17] = ["rax", "rdx", "rcx", "rbx", "rsi", "rdi", "rbp", "rsp", "r8", "r9", "r10", "r11", "r12", "r13", "r14", "r15", "rip"];
    const X86: [&str; 9] = ["eax", "ecx", "edx", "ebx", "esp", "ebp", "esi", "edi", "eip"];
    let table: &[&str] = if is64 { &X64 } else { &X86 };
    if let Some(i) = table.iter().position(|t| *t == n) {
        return Some(i as u16);
    }
    if is64 {
        if let Some(k) = n.strip_prefix("xmm").and_then(|k| k.parse::<u16>().ok()) {
            if k < 16 {
                return Some(17 + k);
            }
        }
    }
    if let Some(k) = n.strip_prefix("reg").and_then(|k| k.parse::<u16>().ok()) {
        return Some(k);
    }
    if let Some(k) = n.strip_prefix('r').and_then(|k| k.parse::<u16>().ok()) {
        // only reached for names that are not architectural (x86-64 r8..r15 matched above)
        return Some(k);
    }
    None
}

//! Monitors.
pub mod dump;
pub mod fault;
pub mod step;

//! Monitors.
pub mod corpus;
pub mod dump;
pub mod fault;
pub mod step;

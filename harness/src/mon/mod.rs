//! Monitors.
pub mod corpus;
pub mod dump;
pub mod entries;
pub mod ep_cfi;
pub mod ep_conv;
pub mod ep_expr;
pub mod ep_info;
pub mod ep_misc;
pub mod fault;
pub mod step;

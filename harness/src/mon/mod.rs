//! mon

//! Reference model of DWARF line-number programs (DWARF 2-5, section 6.2), written from the
//! standard / DESIGN.md Appendix A.4 and independent of gimli.
//!
//! * `Hdr`       — header parameters and directory / file tables (v2-4 lists, v5 entry formats).
//! * `Ins`       — one instruction; `decode` turns program bytes into instructions (model-side
//!                 decoder with its own LEB128), `Machine` executes them.
//! * `Machine`   — the state machine of 6.2.2 / 6.2.5 incl. VLIW `op_index`.
//!
//! Strict part (what the standard fixes): everything a *well-formed* program does.  A program
//! stops being well-formed at the first of these events, which `Machine` records in `ill`:
//! line register would become negative or wrap, address arithmetic leaves the address size
//! (or u64), `DW_LNE_set_address` below the current address of the sequence or >= the
//! tombstone minimum 2^(8*size)-2.
//!
//! PINNED (secondary) behaviour, followed only so that the harness can *predict* what the
//! pinned tree does after such an event; it can never fail a run:
//!   - negative line result saturates at 0, positive overflow wraps;
//!   - address overflow => the reader reports `AddressOverflow` (model: `err = true`, stop);
//!   - tombstoned `set_address`: address/op_index advances are ignored and rows suppressed
//!     until the next accepted `set_address` or the end of the sequence; the end_sequence row
//!     is kept iff the sequence already produced a row.

use crate::asm::Enc;

pub const LNS_COPY: u8 = 1;
pub const LNS_ADVANCE_PC: u8 = 2;
pub const LNS_ADVANCE_LINE: u8 = 3;
pub const LNS_SET_FILE: u8 = 4;
pub const LNS_SET_COLUMN: u8 = 5;
pub const LNS_NEGATE_STMT: u8 = 6;
pub const LNS_SET_BASIC_BLOCK: u8 = 7;
pub const LNS_CONST_ADD_PC: u8 = 8;
pub const LNS_FIXED_ADVANCE_PC: u8 = 9;
pub const LNS_SET_PROLOGUE_END: u8 = 10;
pub const LNS_SET_EPILOGUE_BEGIN: u8 = 11;
pub const LNS_SET_ISA: u8 = 12;

pub const LNE_END_SEQUENCE: u8 = 1;
pub const LNE_SET_ADDRESS: u8 = 2;
pub const LNE_DEFINE_FILE: u8 = 3;
pub const LNE_SET_DISCRIMINATOR: u8 = 4;

pub const LNCT_PATH: u64 = 1;
pub const LNCT_DIRECTORY_INDEX: u64 = 2;
pub const LNCT_TIMESTAMP: u64 = 3;
pub const LNCT_SIZE: u64 = 4;
pub const LNCT_MD5: u64 = 5;
pub const LNCT_LLVM_SOURCE: u64 = 0x2001;

pub const FORM_BLOCK2: u16 = 0x03;
pub const FORM_BLOCK4: u16 = 0x04;
pub const FORM_DATA2: u16 = 0x05;
pub const FORM_DATA4: u16 = 0x06;
pub const FORM_DATA8: u16 = 0x07;
pub const FORM_STRING: u16 = 0x08;
pub const FORM_BLOCK: u16 = 0x09;
pub const FORM_BLOCK1: u16 = 0x0a;
pub const FORM_DATA1: u16 = 0x0b;
pub const FORM_FLAG: u16 = 0x0c;
pub const FORM_SDATA: u16 = 0x0d;
pub const FORM_STRP: u16 = 0x0e;
pub const FORM_UDATA: u16 = 0x0f;
pub const FORM_SEC_OFFSET: u16 = 0x17;
pub const FORM_STRX: u16 = 0x1a;
pub const FORM_STRP_SUP: u16 = 0x1d;
pub const FORM_DATA16: u16 = 0x1e;
pub const FORM_LINE_STRP: u16 = 0x1f;
pub const FORM_STRX1: u16 = 0x25;
pub const FORM_STRX2: u16 = 0x26;
pub const FORM_STRX3: u16 = 0x27;
pub const FORM_STRX4: u16 = 0x28;
pub const FORM_GNU_STR_INDEX: u16 = 0x1f02;
pub const FORM_GNU_STRP_ALT: u16 = 0x1f21;

/// A decoded form value, at the granularity at which a reader reports it.
#[derive(Clone, Debug, PartialEq, Eq)]
pub enum AV {
    Block(Vec<u8>),
    Data1(u8),
    Data2(u16),
    Data4(u32),
    Data8(u64),
    Udata(u64),
    Sdata(i64),
    Flag(bool),
    SecOffset(u64),
    /// inline NUL-terminated string (without the NUL)
    Str(Vec<u8>),
    Strp(u64),
    StrpSup(u64),
    LineStrp(u64),
    Strx(u64),
    /// something the model has no name for (only produced from the observed side)
    Other(String),
}

impl AV {
    /// Unsigned value of a constant-class form (None for anything else, and for negative sdata).
    pub fn udata(&self) -> Option<u64> {
        Some(match self {
            AV::Data1(v) => *v as u64,
            AV::Data2(v) => *v as u64,
            AV::Data4(v) => *v as u64,
            AV::Data8(v) => *v,
            AV::Udata(v) => *v,
            AV::Sdata(v) if *v >= 0 => *v as u64,
            _ => return None,
        })
    }
}

/// One file table entry as the standard defines it.
#[derive(Clone, Debug, PartialEq, Eq)]
pub struct FileM {
    pub path: AV,
    pub dir: u64,
    pub mtime: u64,
    pub size: u64,
    pub md5: [u8; 16],
    pub source: Option<AV>,
}

impl FileM {
    pub fn v4(name: &[u8], dir: u64, mtime: u64, size: u64) -> FileM {
        FileM { path: AV::Str(name.to_vec()), dir, mtime, size, md5: [0; 16], source: None }
    }
}

/// v5 entry format: (content type, form).
pub type Fmt = (u64, u16);

/// File entry of a v5 table from its fields (in format order).
/// Returns the entry and whether every (content type, form) combination was one the
/// standard lists (otherwise the interpretation is pinned, not strict).
pub fn derive_file_v5(fmt: &[Fmt], vals: &[AV]) -> (FileM, bool) {
    let mut f = FileM { path: AV::Other("missing".into()), dir: 0, mtime: 0, size: 0, md5: [0; 16], source: None };
    let mut strict = true;
    let mut seen: Vec<u64> = vec![];
    for ((ct, form), v) in fmt.iter().zip(vals.iter()) {
        if seen.contains(ct) && *ct <= LNCT_MD5 {
            strict = false; // duplicate standard content type: standard silent
        }
        seen.push(*ct);
        match *ct {
            LNCT_PATH => {
                f.path = v.clone();
                if !is_string_form(*form) {
                    strict = false;
                }
            }
            LNCT_DIRECTORY_INDEX => {
                if let Some(x) = v.udata() {
                    f.dir = x;
                }
                if !matches!(*form, FORM_DATA1 | FORM_DATA2 | FORM_UDATA) {
                    strict = false;
                }
            }
            LNCT_TIMESTAMP => {
                if let Some(x) = v.udata() {
                    f.mtime = x;
                }
                if !matches!(*form, FORM_UDATA | FORM_DATA4 | FORM_DATA8) {
                    strict = false;
                }
            }
            LNCT_SIZE => {
                if let Some(x) = v.udata() {
                    f.size = x;
                }
                if !matches!(*form, FORM_UDATA | FORM_DATA1 | FORM_DATA2 | FORM_DATA4 | FORM_DATA8) {
                    strict = false;
                }
            }
            LNCT_MD5 => {
                if let AV::Block(b) = v {
                    if b.len() == 16 {
                        f.md5.copy_from_slice(b);
                    }
                }
                if *form != FORM_DATA16 {
                    strict = false;
                }
            }
            LNCT_LLVM_SOURCE => {
                f.source = Some(v.clone());
            }
            _ => {}
        }
    }
    (f, strict)
}

pub fn derive_dir_v5(fmt: &[Fmt], vals: &[AV]) -> AV {
    let mut p = AV::Other("missing".into());
    for ((ct, _), v) in fmt.iter().zip(vals.iter()) {
        if *ct == LNCT_PATH {
            p = v.clone();
        }
    }
    p
}

pub fn is_string_form(form: u16) -> bool {
    matches!(
        form,
        FORM_STRING | FORM_STRP | FORM_LINE_STRP | FORM_STRP_SUP | FORM_GNU_STRP_ALT | FORM_STRX | FORM_GNU_STR_INDEX | FORM_STRX1 | FORM_STRX2 | FORM_STRX3 | FORM_STRX4
    )
}

/// Line-number program header: parameters and tables.
#[derive(Clone, Debug)]
pub struct Hdr {
    pub enc: Enc,
    pub min_inst_len: u8,
    /// For version < 4 this is not encoded and must be 1.
    pub max_ops: u8,
    pub default_is_stmt: bool,
    /// raw byte written for default_is_stmt (any non-zero value means true)
    pub default_is_stmt_raw: u8,
    pub line_base: i8,
    pub line_range: u8,
    pub opcode_base: u8,
    /// opcode_base - 1 entries
    pub std_lengths: Vec<u8>,
    // ---- version <= 4
    pub dirs_v4: Vec<Vec<u8>>,
    pub files_v4: Vec<(Vec<u8>, u64, u64, u64)>,
    // ---- version 5
    pub dir_fmt: Vec<Fmt>,
    pub dirs_v5: Vec<Vec<AV>>,
    pub file_fmt: Vec<Fmt>,
    pub files_v5: Vec<Vec<AV>>,
    /// bytes between the end of the tables and the first instruction (covered by header_length)
    pub pad: Vec<u8>,
}

impl Hdr {
    pub fn v5(&self) -> bool {
        self.enc.version >= 5
    }
    pub fn mask(&self) -> u64 {
        self.enc.addr_mask()
    }
    /// `include_directories` as a reader lists them.
    pub fn dir_table(&self) -> Vec<AV> {
        if self.v5() {
            self.dirs_v5.iter().map(|v| derive_dir_v5(&self.dir_fmt, v)).collect()
        } else {
            self.dirs_v4.iter().map(|d| AV::Str(d.clone())).collect()
        }
    }
    /// `file_names` as a reader lists them (before any DW_LNE_define_file).
    pub fn file_table(&self) -> Vec<FileM> {
        if self.v5() {
            self.files_v5.iter().map(|v| derive_file_v5(&self.file_fmt, v).0).collect()
        } else {
            self.files_v4.iter().map(|(n, d, m, s)| FileM::v4(n, *d, *m, *s)).collect()
        }
    }
    /// Are all v5 table entries in standard (content type, form) combinations?
    pub fn tables_strict(&self) -> bool {
        if !self.v5() {
            return true;
        }
        self.files_v5.iter().all(|v| derive_file_v5(&self.file_fmt, v).1)
            && self.dir_fmt.iter().all(|(ct, form)| *ct != LNCT_PATH || is_string_form(*form))
    }
    /// Directory with index `i` (v <= 4: 0 is the compilation directory, 1-based after that;
    /// v5: 0-based).
    pub fn directory(&self, i: u64, comp_dir: Option<&[u8]>) -> Option<AV> {
        let t = self.dir_table();
        if self.v5() {
            usize::try_from(i).ok().and_then(|i| t.get(i).cloned())
        } else if i == 0 {
            comp_dir.map(|d| AV::Str(d.to_vec()))
        } else {
            usize::try_from(i - 1).ok().and_then(|i| t.get(i).cloned())
        }
    }
    /// File with index `i` in `table` (the table may have grown by define_file).
    pub fn file(&self, table: &[FileM], i: u64, comp_name: Option<&[u8]>) -> Option<FileM> {
        if self.v5() {
            usize::try_from(i).ok().and_then(|i| table.get(i).cloned())
        } else if i == 0 {
            comp_name.map(|n| FileM::v4(n, 0, 0, 0))
        } else {
            usize::try_from(i - 1).ok().and_then(|i| table.get(i).cloned())
        }
    }
    /// Classification of an opcode byte under this header.
    pub fn class(&self, op: u8) -> OpClass {
        if op == 0 {
            OpClass::Extended
        } else if op >= self.opcode_base {
            OpClass::Special
        } else if op <= LNS_SET_ISA {
            OpClass::Standard
        } else {
            OpClass::UnknownStandard(self.std_lengths.get(op as usize - 1).copied().unwrap_or(0))
        }
    }
    /// Is the standard opcode `op` usable (i.e. not shadowed by a special opcode)?
    pub fn has_std(&self, op: u8) -> bool {
        op >= 1 && op < self.opcode_base
    }
}

#[derive(Clone, Copy, Debug, PartialEq, Eq)]
pub enum OpClass {
    Extended,
    Special,
    Standard,
    UnknownStandard(u8),
}

#[derive(Clone, Copy, Debug, PartialEq, Eq, Default)]
pub struct Row {
    pub address: u64,
    pub op_index: u64,
    pub file: u64,
    pub line: u64,
    pub column: u64,
    pub is_stmt: bool,
    pub basic_block: bool,
    pub end_sequence: bool,
    pub prologue_end: bool,
    pub epilogue_begin: bool,
    pub isa: u64,
    pub discriminator: u64,
}

impl Row {
    /// Name of the first field in which two rows differ.
    pub fn first_diff(&self, o: &Row) -> Option<&'static str> {
        if self.address != o.address {
            Some("address")
        } else if self.op_index != o.op_index {
            Some("op_index")
        } else if self.file != o.file {
            Some("file")
        } else if self.line != o.line {
            Some("line")
        } else if self.column != o.column {
            Some("column")
        } else if self.is_stmt != o.is_stmt {
            Some("is_stmt")
        } else if self.basic_block != o.basic_block {
            Some("basic_block")
        } else if self.end_sequence != o.end_sequence {
            Some("end_sequence")
        } else if self.prologue_end != o.prologue_end {
            Some("prologue_end")
        } else if self.epilogue_begin != o.epilogue_begin {
            Some("epilogue_begin")
        } else if self.isa != o.isa {
            Some("isa")
        } else if self.discriminator != o.discriminator {
            Some("discriminator")
        } else {
            None
        }
    }
}

/// One line-number instruction.  `extra` = bytes inside an extended instruction's length
/// that follow its defined operands (a consumer skips them using the length).
#[derive(Clone, Debug, PartialEq, Eq)]
pub enum Ins {
    Special(u8),
    Copy,
    AdvancePc(u64),
    AdvanceLine(i64),
    SetFile(u64),
    SetColumn(u64),
    NegateStmt,
    SetBasicBlock,
    ConstAddPc,
    FixedAdvancePc(u16),
    SetPrologueEnd,
    SetEpilogueBegin,
    SetIsa(u64),
    /// opcode below opcode_base that the standard does not define; operands per
    /// standard_opcode_lengths
    UnknownStd(u8, Vec<u64>),
    EndSequence { extra: Vec<u8> },
    SetAddress { addr: u64, extra: Vec<u8> },
    DefineFile { name: Vec<u8>, dir: u64, mtime: u64, size: u64, extra: Vec<u8> },
    SetDiscriminator { v: u64, extra: Vec<u8> },
    /// unknown extended opcode (incl. DW_LNE_define_file in version 5) with its payload
    UnknownExt(u8, Vec<u8>),
}

impl Ins {
    pub fn kind(&self) -> &'static str {
        match self {
            Ins::Special(_) => "special",
            Ins::Copy => "copy",
            Ins::AdvancePc(_) => "advance_pc",
            Ins::AdvanceLine(_) => "advance_line",
            Ins::SetFile(_) => "set_file",
            Ins::SetColumn(_) => "set_column",
            Ins::NegateStmt => "negate_stmt",
            Ins::SetBasicBlock => "set_basic_block",
            Ins::ConstAddPc => "const_add_pc",
            Ins::FixedAdvancePc(_) => "fixed_advance_pc",
            Ins::SetPrologueEnd => "set_prologue_end",
            Ins::SetEpilogueBegin => "set_epilogue_begin",
            Ins::SetIsa(_) => "set_isa",
            Ins::UnknownStd(_, a) => match a.len() {
                0 => "unknown_std0",
                1 => "unknown_std1",
                _ => "unknown_stdN",
            },
            Ins::EndSequence { .. } => "end_sequence",
            Ins::SetAddress { .. } => "set_address",
            Ins::DefineFile { .. } => "define_file",
            Ins::SetDiscriminator { .. } => "set_discriminator",
            Ins::UnknownExt(..) => "unknown_ext",
        }
    }
}

// ---------------------------------------------------------------- model-side decoder

fn rd_uleb(b: &[u8], pos: &mut usize) -> Option<u64> {
    let mut v: u128 = 0;
    let mut shift = 0u32;
    let mut n = 0;
    loop {
        let x = *b.get(*pos)?;
        *pos += 1;
        n += 1;
        if n > 10 {
            return None;
        }
        v |= ((x & 0x7f) as u128) << shift;
        shift += 7;
        if x & 0x80 == 0 {
            break;
        }
    }
    if v > u64::MAX as u128 {
        None
    } else {
        Some(v as u64)
    }
}

fn rd_sleb(b: &[u8], pos: &mut usize) -> Option<i64> {
    let mut v: i128 = 0;
    let mut shift = 0u32;
    let mut n = 0;
    loop {
        let x = *b.get(*pos)?;
        *pos += 1;
        n += 1;
        if n > 10 {
            return None;
        }
        v |= ((x & 0x7f) as i128) << shift;
        shift += 7;
        if x & 0x80 == 0 {
            if x & 0x40 != 0 {
                v |= -1i128 << shift;
            }
            break;
        }
    }
    if v < i64::MIN as i128 || v > i64::MAX as i128 {
        None
    } else {
        Some(v as i64)
    }
}

fn rd_uint(b: &[u8], pos: &mut usize, le: bool, n: usize) -> Option<u64> {
    if b.len() < *pos + n {
        return None;
    }
    let v = crate::asm::get_uint(&b[*pos..], le, n);
    *pos += n;
    Some(v)
}

/// Decode a whole program.  Returns the instructions with their start offsets and
/// `complete == true` iff every byte belonged to a completely decoded instruction.
pub fn decode(h: &Hdr, prog: &[u8]) -> (Vec<(usize, Ins)>, bool) {
    let mut out = vec![];
    let mut pos = 0usize;
    while pos < prog.len() {
        let start = pos;
        match decode_one(h, prog, &mut pos) {
            Some(i) => out.push((start, i)),
            None => return (out, false),
        }
    }
    (out, true)
}

fn decode_one(h: &Hdr, b: &[u8], pos: &mut usize) -> Option<Ins> {
    let op = *b.get(*pos)?;
    *pos += 1;
    Some(match h.class(op) {
        OpClass::Special => Ins::Special(op),
        OpClass::Extended => {
            let len = rd_uleb(b, pos)?;
            let len = usize::try_from(len).ok()?;
            let end = pos.checked_add(len)?;
            if end > b.len() || len == 0 {
                return None;
            }
            let body = &b[*pos..end];
            *pos = end;
            let sub = body[0];
            let mut p = 1usize;
            match sub {
                LNE_END_SEQUENCE => Ins::EndSequence { extra: body[p..].to_vec() },
                LNE_SET_ADDRESS => {
                    let addr = rd_uint(body, &mut p, h.enc.le, h.enc.addr as usize)?;
                    Ins::SetAddress { addr, extra: body[p..].to_vec() }
                }
                LNE_DEFINE_FILE if !h.v5() => {
                    let nul = body[p..].iter().position(|x| *x == 0)?;
                    let name = body[p..p + nul].to_vec();
                    p += nul + 1;
                    let dir = rd_uleb(body, &mut p)?;
                    let mtime = rd_uleb(body, &mut p)?;
                    let size = rd_uleb(body, &mut p)?;
                    Ins::DefineFile { name, dir, mtime, size, extra: body[p..].to_vec() }
                }
                LNE_SET_DISCRIMINATOR => {
                    let v = rd_uleb(body, &mut p)?;
                    Ins::SetDiscriminator { v, extra: body[p..].to_vec() }
                }
                _ => Ins::UnknownExt(sub, body[1..].to_vec()),
            }
        }
        OpClass::Standard => match op {
            LNS_COPY => Ins::Copy,
            LNS_ADVANCE_PC => Ins::AdvancePc(rd_uleb(b, pos)?),
            LNS_ADVANCE_LINE => Ins::AdvanceLine(rd_sleb(b, pos)?),
            LNS_SET_FILE => Ins::SetFile(rd_uleb(b, pos)?),
            LNS_SET_COLUMN => Ins::SetColumn(rd_uleb(b, pos)?),
            LNS_NEGATE_STMT => Ins::NegateStmt,
            LNS_SET_BASIC_BLOCK => Ins::SetBasicBlock,
            LNS_CONST_ADD_PC => Ins::ConstAddPc,
            LNS_FIXED_ADVANCE_PC => Ins::FixedAdvancePc(rd_uint(b, pos, h.enc.le, 2)? as u16),
            LNS_SET_PROLOGUE_END => Ins::SetPrologueEnd,
            LNS_SET_EPILOGUE_BEGIN => Ins::SetEpilogueBegin,
            _ => Ins::SetIsa(rd_uleb(b, pos)?),
        },
        OpClass::UnknownStandard(n) => {
            let mut args = vec![];
            for _ in 0..n {
                args.push(rd_uleb(b, pos)?);
            }
            Ins::UnknownStd(op, args)
        }
    })
}

// ---------------------------------------------------------------- state machine

#[derive(Clone, Debug)]
pub struct Machine {
    pub min_inst_len: u64,
    pub max_ops: u64,
    pub line_base: i64,
    pub line_range: u64,
    pub opcode_base: u64,
    pub default_is_stmt: bool,
    pub mask: u64,
    pub v5: bool,
    pub reg: Row,
    /// PINNED: inside a tombstoned part of a sequence
    pub tomb: bool,
    /// a row was emitted for the current sequence
    pub seq_has_rows: bool,
    /// the program left the well-formed domain at some earlier point
    pub ill: bool,
    /// PINNED: the reader reports AddressOverflow here
    pub err: bool,
}

#[derive(Clone, Debug, Default)]
pub struct Step {
    /// row appended to the matrix by this instruction
    pub row: Option<Row>,
    /// file appended to the file table by this instruction
    pub file: Option<FileM>,
}

impl Machine {
    pub fn new(h: &Hdr) -> Machine {
        let mut m = Machine {
            min_inst_len: h.min_inst_len as u64,
            max_ops: h.max_ops as u64,
            line_base: h.line_base as i64,
            line_range: h.line_range as u64,
            opcode_base: h.opcode_base as u64,
            default_is_stmt: h.default_is_stmt,
            mask: h.mask(),
            v5: h.v5(),
            reg: Row::default(),
            tomb: false,
            seq_has_rows: false,
            ill: false,
            err: false,
        };
        m.reset_sequence();
        m
    }

    fn reset_sequence(&mut self) {
        self.reg = Row { address: 0, op_index: 0, file: 1, line: 1, column: 0, is_stmt: self.default_is_stmt, ..Row::default() };
        self.tomb = false;
    }

    fn add_line(&mut self, d: i64) {
        let r = self.reg.line as i128 + d as i128;
        if r < 0 {
            self.ill = true;
            self.reg.line = 0; // PINNED
        } else if r > u64::MAX as i128 {
            self.ill = true;
            self.reg.line = r as u64; // PINNED: wraps
        } else {
            self.reg.line = r as u64;
        }
    }

    /// 6.2.5.1: operation advance.
    fn op_advance(&mut self, adv: u64) {
        if self.tomb {
            return; // PINNED
        }
        let (addr_adv, new_op_index, wrapped): (u128, u64, bool) = if self.max_ops == 1 {
            (self.min_inst_len as u128 * adv as u128, 0, false)
        } else {
            let s = self.reg.op_index as u128 + adv as u128;
            let wrapped = s > u64::MAX as u128;
            // PINNED on wrap: 64-bit wrapping arithmetic
            let s64 = s as u64;
            let (q, r) = if wrapped { ((s64 / self.max_ops) as u128, s64 % self.max_ops) } else { (s / self.max_ops as u128, (s % self.max_ops as u128) as u64) };
            (self.min_inst_len as u128 * q, r, wrapped)
        };
        if wrapped || addr_adv > u64::MAX as u128 {
            // PINNED: the product wraps to 64 bits
            self.ill = true;
        }
        let addr_adv = addr_adv as u64;
        self.reg.op_index = new_op_index;
        match self.reg.address.checked_add(addr_adv) {
            Some(a) if a & !self.mask == 0 => self.reg.address = a,
            _ => {
                self.ill = true;
                self.err = true;
            }
        }
    }

    fn emit(&mut self, end: bool) -> Option<Row> {
        self.reg.end_sequence = end;
        let suppressed = self.tomb && !(end && self.seq_has_rows);
        let row = if suppressed { None } else { Some(self.reg) };
        if !suppressed {
            self.seq_has_rows = !end;
        }
        if end {
            self.reset_sequence();
        } else {
            self.reg.basic_block = false;
            self.reg.prologue_end = false;
            self.reg.epilogue_begin = false;
            self.reg.discriminator = 0;
        }
        row
    }

    /// Execute one instruction.  After `err` the machine must not be stepped further.
    pub fn step(&mut self, i: &Ins) -> Step {
        let mut out = Step::default();
        match i {
            Ins::Special(op) => {
                let adj = (*op as u64).wrapping_sub(self.opcode_base) & 0xff;
                self.add_line(self.line_base + (adj % self.line_range) as i64);
                self.op_advance(adj / self.line_range);
                if !self.err {
                    out.row = self.emit(false);
                }
            }
            Ins::Copy => out.row = self.emit(false),
            Ins::AdvancePc(a) => self.op_advance(*a),
            Ins::AdvanceLine(d) => self.add_line(*d),
            Ins::SetFile(f) => self.reg.file = *f,
            Ins::SetColumn(c) => self.reg.column = *c,
            Ins::NegateStmt => self.reg.is_stmt = !self.reg.is_stmt,
            Ins::SetBasicBlock => self.reg.basic_block = true,
            Ins::ConstAddPc => {
                let adj = 255 - self.opcode_base;
                self.op_advance(adj / self.line_range);
            }
            Ins::FixedAdvancePc(d) => {
                if !self.tomb {
                    match self.reg.address.checked_add(*d as u64) {
                        Some(a) if a & !self.mask == 0 => {
                            self.reg.address = a;
                            self.reg.op_index = 0;
                        }
                        _ => {
                            self.ill = true;
                            self.err = true;
                        }
                    }
                }
            }
            Ins::SetPrologueEnd => self.reg.prologue_end = true,
            Ins::SetEpilogueBegin => self.reg.epilogue_begin = true,
            Ins::SetIsa(v) => self.reg.isa = *v,
            Ins::UnknownStd(..) | Ins::UnknownExt(..) => {}
            Ins::EndSequence { .. } => out.row = self.emit(true),
            Ins::SetAddress { addr, .. } => {
                let min_tomb = self.mask.wrapping_sub(1);
                let t = *addr < self.reg.address || *addr >= min_tomb;
                if t {
                    self.ill = true; // decreasing / tombstone address: outside the strict domain
                }
                self.tomb = t;
                if !t {
                    self.reg.address = *addr;
                    self.reg.op_index = 0;
                }
            }
            Ins::DefineFile { name, dir, mtime, size, .. } => {
                out.file = Some(FileM::v4(name, *dir, *mtime, *size));
            }
            Ins::SetDiscriminator { v, .. } => self.reg.discriminator = *v,
        }
        out
    }
}

/// Result of running a whole program through the model.
#[derive(Clone, Debug, Default)]
pub struct Run {
    pub rows: Vec<Row>,
    /// file table after the run (header files + define_file)
    pub files: Vec<FileM>,
    /// one per emitted end_sequence row: (start address if the sequence has a row before the
    /// end row, end address, index of the sequence's first row in `rows`, index one past its
    /// end_sequence row)
    pub seqs: Vec<SeqM>,
    /// the program stayed inside the strict domain (well-formed) to the end
    pub wellformed: bool,
    /// PINNED: reader reports AddressOverflow after `rows`
    pub err: bool,
    /// number of rows emitted while still well-formed (rows[..strict_rows] are strict)
    pub strict_rows: usize,
}

#[derive(Clone, Debug, PartialEq, Eq)]
pub struct SeqM {
    pub start: Option<u64>,
    pub end: u64,
    pub first: usize,
    pub past: usize,
}

pub fn run(h: &Hdr, ins: &[Ins], complete: bool) -> Run {
    let mut m = Machine::new(h);
    let mut r = Run { files: h.file_table(), ..Run::default() };
    let mut first = 0usize;
    let mut start: Option<u64> = None;
    let mut strict_rows = 0usize;
    for i in ins {
        let s = m.step(i);
        if let Some(f) = s.file {
            r.files.push(f);
        }
        if m.err {
            break;
        }
        if let Some(row) = s.row {
            r.rows.push(row);
            if !m.ill {
                strict_rows = r.rows.len();
            }
            if row.end_sequence {
                r.seqs.push(SeqM { start, end: row.address, first, past: r.rows.len() });
                first = r.rows.len();
                start = None;
            } else if start.is_none() {
                start = Some(row.address);
            }
        }
    }
    r.err = m.err;
    r.wellformed = !m.ill && complete;
    r.strict_rows = strict_rows;
    r
}

//! Reference model of DWARF attribute forms (DESIGN.md Appendix A.2), written from the
//! DWARF 2-5 standard (section 7.5) plus the GNU extension forms, independently of gimli.
//!
//! Contents
//! * numeric `DW_FORM_*` / `DW_AT_*` constants (own table, cross-checked against gimli's
//!   names at run time by the property modules, never used to *decode* through gimli);
//! * `layout(form, enc)`: how a form is laid out in a DIE (`Layout`), `fixed_size` (the
//!   "fixed-size table"), `class(form, name, enc)`: the value class a form decodes to,
//!   including the version-2 `ref_addr` size and the legacy data4/data8 section-offset rule;
//! * `MVal` / `Pay`: model values (class + payload) and `Expect` (value or rejection);
//! * `model_udata`, `model_sdata`, ...: what the numeric accessors must answer;
//! * `norm_variant`: the variant `Attribute::value()` is expected to produce (secondary:
//!   the property only fixes the payload);
//! * observation glue at the end (`observe`): maps a `gimli::AttributeValue` onto the
//!   model's vocabulary (variant name, class, payload).  It contains no decoding logic.
//!
//! Pinned choices (the standard is silent; compared as stated in the property modules):
//! * every form is decoded by its own definition in every unit version (a DWARF 5 form in a
//!   version 2 unit is not an error);
//! * `DW_FORM_implicit_const` reached through `DW_FORM_indirect` is rejected;
//! * `DW_FORM_flag` is true for every non-zero byte.

use crate::asm::Enc;

// ------------------------------------------------------------------ form codes (DWARF 5 table 7.6)
pub const F_ADDR: u16 = 0x01;
pub const F_BLOCK2: u16 = 0x03;
pub const F_BLOCK4: u16 = 0x04;
pub const F_DATA2: u16 = 0x05;
pub const F_DATA4: u16 = 0x06;
pub const F_DATA8: u16 = 0x07;
pub const F_STRING: u16 = 0x08;
pub const F_BLOCK: u16 = 0x09;
pub const F_BLOCK1: u16 = 0x0a;
pub const F_DATA1: u16 = 0x0b;
pub const F_FLAG: u16 = 0x0c;
pub const F_SDATA: u16 = 0x0d;
pub const F_STRP: u16 = 0x0e;
pub const F_UDATA: u16 = 0x0f;
pub const F_REF_ADDR: u16 = 0x10;
pub const F_REF1: u16 = 0x11;
pub const F_REF2: u16 = 0x12;
pub const F_REF4: u16 = 0x13;
pub const F_REF8: u16 = 0x14;
pub const F_REF_UDATA: u16 = 0x15;
pub const F_INDIRECT: u16 = 0x16;
pub const F_SEC_OFFSET: u16 = 0x17;
pub const F_EXPRLOC: u16 = 0x18;
pub const F_FLAG_PRESENT: u16 = 0x19;
pub const F_STRX: u16 = 0x1a;
pub const F_ADDRX: u16 = 0x1b;
pub const F_REF_SUP4: u16 = 0x1c;
pub const F_STRP_SUP: u16 = 0x1d;
pub const F_DATA16: u16 = 0x1e;
pub const F_LINE_STRP: u16 = 0x1f;
pub const F_REF_SIG8: u16 = 0x20;
pub const F_IMPLICIT_CONST: u16 = 0x21;
pub const F_LOCLISTX: u16 = 0x22;
pub const F_RNGLISTX: u16 = 0x23;
pub const F_REF_SUP8: u16 = 0x24;
pub const F_STRX1: u16 = 0x25;
pub const F_STRX2: u16 = 0x26;
pub const F_STRX3: u16 = 0x27;
pub const F_STRX4: u16 = 0x28;
pub const F_ADDRX1: u16 = 0x29;
pub const F_ADDRX2: u16 = 0x2a;
pub const F_ADDRX3: u16 = 0x2b;
pub const F_ADDRX4: u16 = 0x2c;
pub const F_GNU_ADDR_INDEX: u16 = 0x1f01;
pub const F_GNU_STR_INDEX: u16 = 0x1f02;
pub const F_GNU_REF_ALT: u16 = 0x1f20;
pub const F_GNU_STRP_ALT: u16 = 0x1f21;

/// Every form the model knows (and gimli is documented to accept), with its standard name.
pub const FORMS: &[(u16, &str)] = &[
    (F_ADDR, "DW_FORM_addr"),
    (F_BLOCK2, "DW_FORM_block2"),
    (F_BLOCK4, "DW_FORM_block4"),
    (F_DATA2, "DW_FORM_data2"),
    (F_DATA4, "DW_FORM_data4"),
    (F_DATA8, "DW_FORM_data8"),
    (F_STRING, "DW_FORM_string"),
    (F_BLOCK, "DW_FORM_block"),
    (F_BLOCK1, "DW_FORM_block1"),
    (F_DATA1, "DW_FORM_data1"),
    (F_FLAG, "DW_FORM_flag"),
    (F_SDATA, "DW_FORM_sdata"),
    (F_STRP, "DW_FORM_strp"),
    (F_UDATA, "DW_FORM_udata"),
    (F_REF_ADDR, "DW_FORM_ref_addr"),
    (F_REF1, "DW_FORM_ref1"),
    (F_REF2, "DW_FORM_ref2"),
    (F_REF4, "DW_FORM_ref4"),
    (F_REF8, "DW_FORM_ref8"),
    (F_REF_UDATA, "DW_FORM_ref_udata"),
    (F_INDIRECT, "DW_FORM_indirect"),
    (F_SEC_OFFSET, "DW_FORM_sec_offset"),
    (F_EXPRLOC, "DW_FORM_exprloc"),
    (F_FLAG_PRESENT, "DW_FORM_flag_present"),
    (F_STRX, "DW_FORM_strx"),
    (F_ADDRX, "DW_FORM_addrx"),
    (F_REF_SUP4, "DW_FORM_ref_sup4"),
    (F_STRP_SUP, "DW_FORM_strp_sup"),
    (F_DATA16, "DW_FORM_data16"),
    (F_LINE_STRP, "DW_FORM_line_strp"),
    (F_REF_SIG8, "DW_FORM_ref_sig8"),
    (F_IMPLICIT_CONST, "DW_FORM_implicit_const"),
    (F_LOCLISTX, "DW_FORM_loclistx"),
    (F_RNGLISTX, "DW_FORM_rnglistx"),
    (F_REF_SUP8, "DW_FORM_ref_sup8"),
    (F_STRX1, "DW_FORM_strx1"),
    (F_STRX2, "DW_FORM_strx2"),
    (F_STRX3, "DW_FORM_strx3"),
    (F_STRX4, "DW_FORM_strx4"),
    (F_ADDRX1, "DW_FORM_addrx1"),
    (F_ADDRX2, "DW_FORM_addrx2"),
    (F_ADDRX3, "DW_FORM_addrx3"),
    (F_ADDRX4, "DW_FORM_addrx4"),
    (F_GNU_ADDR_INDEX, "DW_FORM_GNU_addr_index"),
    (F_GNU_STR_INDEX, "DW_FORM_GNU_str_index"),
    (F_GNU_REF_ALT, "DW_FORM_GNU_ref_alt"),
    (F_GNU_STRP_ALT, "DW_FORM_GNU_strp_alt"),
];

/// Form codes no DWARF version (2-5) nor the GNU extensions define.
pub const UNKNOWN_FORMS: &[u16] = &[0x2d, 0x30, 0x7f, 0x80, 0x1f00, 0x1f03, 0x1f22, 0x3fff, 0xffff];

pub fn form_name(form: u16) -> &'static str {
    FORMS.iter().find(|f| f.0 == form).map(|f| f.1).unwrap_or("DW_FORM_<unknown>")
}

// ------------------------------------------------------------------ attribute names (table 7.5)
pub const AT_SIBLING: u16 = 0x01;
pub const AT_LOCATION: u16 = 0x02;
pub const AT_NAME: u16 = 0x03;
pub const AT_ORDERING: u16 = 0x09;
pub const AT_BYTE_SIZE: u16 = 0x0b;
pub const AT_BIT_OFFSET: u16 = 0x0c;
pub const AT_BIT_SIZE: u16 = 0x0d;
pub const AT_STMT_LIST: u16 = 0x10;
pub const AT_LOW_PC: u16 = 0x11;
pub const AT_HIGH_PC: u16 = 0x12;
pub const AT_LANGUAGE: u16 = 0x13;
pub const AT_VISIBILITY: u16 = 0x17;
pub const AT_STRING_LENGTH: u16 = 0x19;
pub const AT_CONST_VALUE: u16 = 0x1c;
pub const AT_INLINE: u16 = 0x20;
pub const AT_LOWER_BOUND: u16 = 0x22;
pub const AT_RETURN_ADDR: u16 = 0x2a;
pub const AT_START_SCOPE: u16 = 0x2c;
pub const AT_BIT_STRIDE: u16 = 0x2e;
pub const AT_UPPER_BOUND: u16 = 0x2f;
pub const AT_ACCESSIBILITY: u16 = 0x32;
pub const AT_ADDRESS_CLASS: u16 = 0x33;
pub const AT_CALLING_CONVENTION: u16 = 0x36;
pub const AT_COUNT: u16 = 0x37;
pub const AT_DATA_MEMBER_LOCATION: u16 = 0x38;
pub const AT_DECL_COLUMN: u16 = 0x39;
pub const AT_DECL_FILE: u16 = 0x3a;
pub const AT_DECL_LINE: u16 = 0x3b;
pub const AT_ENCODING: u16 = 0x3e;
pub const AT_FRAME_BASE: u16 = 0x40;
pub const AT_IDENTIFIER_CASE: u16 = 0x42;
pub const AT_MACRO_INFO: u16 = 0x43;
pub const AT_SEGMENT: u16 = 0x46;
pub const AT_STATIC_LINK: u16 = 0x48;
pub const AT_TYPE: u16 = 0x49;
pub const AT_USE_LOCATION: u16 = 0x4a;
pub const AT_VIRTUALITY: u16 = 0x4c;
pub const AT_VTABLE_ELEM_LOCATION: u16 = 0x4d;
pub const AT_ALLOCATED: u16 = 0x4e;
pub const AT_ASSOCIATED: u16 = 0x4f;
pub const AT_DATA_LOCATION: u16 = 0x50;
pub const AT_BYTE_STRIDE: u16 = 0x51;
pub const AT_RANGES: u16 = 0x55;
pub const AT_CALL_COLUMN: u16 = 0x57;
pub const AT_CALL_FILE: u16 = 0x58;
pub const AT_CALL_LINE: u16 = 0x59;
pub const AT_DECIMAL_SIGN: u16 = 0x5e;
pub const AT_ENDIANITY: u16 = 0x65;
pub const AT_RANK: u16 = 0x71;
pub const AT_STR_OFFSETS_BASE: u16 = 0x72;
pub const AT_ADDR_BASE: u16 = 0x73;
pub const AT_RNGLISTS_BASE: u16 = 0x74;
pub const AT_MACROS: u16 = 0x79;
pub const AT_CALL_VALUE: u16 = 0x7e;
pub const AT_CALL_ORIGIN: u16 = 0x7f;
pub const AT_CALL_TARGET: u16 = 0x83;
pub const AT_CALL_TARGET_CLOBBERED: u16 = 0x84;
pub const AT_CALL_DATA_LOCATION: u16 = 0x85;
pub const AT_CALL_DATA_VALUE: u16 = 0x86;
pub const AT_LOCLISTS_BASE: u16 = 0x8c;
pub const AT_GNU_DWO_ID: u16 = 0x2131;
pub const AT_GNU_RANGES_BASE: u16 = 0x2132;
pub const AT_GNU_ADDR_BASE: u16 = 0x2133;

/// Attribute names for which `value()` has a normalisation rule (Appendix A.2), with their
/// standard names (used for the run-time cross-check of the numeric codes).
pub const NORMALISED_NAMES: &[(u16, &str)] = &[
    (AT_LOCATION, "DW_AT_location"),
    (AT_ORDERING, "DW_AT_ordering"),
    (AT_BYTE_SIZE, "DW_AT_byte_size"),
    (AT_BIT_OFFSET, "DW_AT_bit_offset"),
    (AT_BIT_SIZE, "DW_AT_bit_size"),
    (AT_STMT_LIST, "DW_AT_stmt_list"),
    (AT_HIGH_PC, "DW_AT_high_pc"),
    (AT_LANGUAGE, "DW_AT_language"),
    (AT_VISIBILITY, "DW_AT_visibility"),
    (AT_STRING_LENGTH, "DW_AT_string_length"),
    (AT_INLINE, "DW_AT_inline"),
    (AT_LOWER_BOUND, "DW_AT_lower_bound"),
    (AT_RETURN_ADDR, "DW_AT_return_addr"),
    (AT_START_SCOPE, "DW_AT_start_scope"),
    (AT_BIT_STRIDE, "DW_AT_bit_stride"),
    (AT_UPPER_BOUND, "DW_AT_upper_bound"),
    (AT_ACCESSIBILITY, "DW_AT_accessibility"),
    (AT_ADDRESS_CLASS, "DW_AT_address_class"),
    (AT_CALLING_CONVENTION, "DW_AT_calling_convention"),
    (AT_COUNT, "DW_AT_count"),
    (AT_DATA_MEMBER_LOCATION, "DW_AT_data_member_location"),
    (AT_DECL_COLUMN, "DW_AT_decl_column"),
    (AT_DECL_FILE, "DW_AT_decl_file"),
    (AT_DECL_LINE, "DW_AT_decl_line"),
    (AT_ENCODING, "DW_AT_encoding"),
    (AT_FRAME_BASE, "DW_AT_frame_base"),
    (AT_IDENTIFIER_CASE, "DW_AT_identifier_case"),
    (AT_MACRO_INFO, "DW_AT_macro_info"),
    (AT_SEGMENT, "DW_AT_segment"),
    (AT_STATIC_LINK, "DW_AT_static_link"),
    (AT_USE_LOCATION, "DW_AT_use_location"),
    (AT_VIRTUALITY, "DW_AT_virtuality"),
    (AT_VTABLE_ELEM_LOCATION, "DW_AT_vtable_elem_location"),
    (AT_ALLOCATED, "DW_AT_allocated"),
    (AT_ASSOCIATED, "DW_AT_associated"),
    (AT_DATA_LOCATION, "DW_AT_data_location"),
    (AT_BYTE_STRIDE, "DW_AT_byte_stride"),
    (AT_RANGES, "DW_AT_ranges"),
    (AT_CALL_COLUMN, "DW_AT_call_column"),
    (AT_CALL_FILE, "DW_AT_call_file"),
    (AT_CALL_LINE, "DW_AT_call_line"),
    (AT_DECIMAL_SIGN, "DW_AT_decimal_sign"),
    (AT_ENDIANITY, "DW_AT_endianity"),
    (AT_RANK, "DW_AT_rank"),
    (AT_STR_OFFSETS_BASE, "DW_AT_str_offsets_base"),
    (AT_ADDR_BASE, "DW_AT_addr_base"),
    (AT_RNGLISTS_BASE, "DW_AT_rnglists_base"),
    (AT_MACROS, "DW_AT_macros"),
    (AT_CALL_VALUE, "DW_AT_call_value"),
    (AT_CALL_ORIGIN, "DW_AT_call_origin"),
    (AT_CALL_TARGET, "DW_AT_call_target"),
    (AT_CALL_TARGET_CLOBBERED, "DW_AT_call_target_clobbered"),
    (AT_CALL_DATA_LOCATION, "DW_AT_call_data_location"),
    (AT_CALL_DATA_VALUE, "DW_AT_call_data_value"),
    (AT_LOCLISTS_BASE, "DW_AT_loclists_base"),
    (AT_GNU_DWO_ID, "DW_AT_GNU_dwo_id"),
    (AT_GNU_RANGES_BASE, "DW_AT_GNU_ranges_base"),
    (AT_GNU_ADDR_BASE, "DW_AT_GNU_addr_base"),
];

/// Attribute names without a normalisation rule (value() must return the raw value's
/// payload unchanged): standard names with reference/flag/string/address classes, a few
/// vendor codes and unassigned codes.
pub const PLAIN_NAMES: &[u16] = &[
    0x01, 0x03, 0x11, 0x15, 0x16, 0x18, 0x1a, 0x1b, 0x1c, 0x1d, 0x1e, 0x21, 0x25, 0x27, 0x31, 0x34, 0x35, 0x3c, 0x3d,
    0x3f, 0x41, 0x44, 0x45, 0x47, 0x49, 0x4b, 0x52, 0x53, 0x54, 0x56, 0x5a, 0x5b, 0x5c, 0x5d, 0x5f, 0x60, 0x61, 0x64,
    0x69, 0x6b, 0x6e, 0x6f, 0x70, 0x76, 0x87, 0x88, 0x8b, 0x04, 0x8d, 0x2007, 0x2111, 0x2130, 0x3fff, 0x3e02, 0xffff,
];

/// Names under which `DW_FORM_data4` (32-bit DWARF) / `DW_FORM_data8` (64-bit DWARF) is a
/// section offset (loclistptr / lineptr / macptr / rangelistptr classes of DWARF 2 and 3).
pub fn legacy_secoffset_name(name: u16, version: u16) -> bool {
    match name {
        AT_LOCATION | AT_STMT_LIST | AT_STRING_LENGTH | AT_RETURN_ADDR | AT_START_SCOPE | AT_FRAME_BASE
        | AT_MACRO_INFO | AT_MACROS | AT_SEGMENT | AT_STATIC_LINK | AT_USE_LOCATION | AT_VTABLE_ELEM_LOCATION
        | AT_RANGES => true,
        AT_DATA_MEMBER_LOCATION => version == 2 || version == 3,
        _ => false,
    }
}

// ------------------------------------------------------------------ layouts and classes

#[derive(Clone, Copy, Debug, PartialEq, Eq)]
pub enum Layout {
    /// `n` bytes in the unit's byte order (n = 0 for flag_present)
    Fixed(usize),
    Uleb,
    Sleb,
    /// length prefix of `n` bytes, then that many bytes
    BlockN(usize),
    /// ULEB128 length, then that many bytes
    BlockUleb,
    /// bytes up to and including the first NUL
    CStr,
    /// ULEB128 form code, then that form
    Indirect,
    /// no bytes in the DIE; the value is the SLEB128 stored in the abbreviation
    ImplicitConst,
}

/// Layout of `form` in a DIE of a unit with encoding `enc`; `None` for unknown forms.
pub fn layout(form: u16, enc: Enc) -> Option<Layout> {
    let word = enc.word() as usize;
    let addr = enc.addr as usize;
    Some(match form {
        F_ADDR => Layout::Fixed(addr),
        F_BLOCK1 => Layout::BlockN(1),
        F_BLOCK2 => Layout::BlockN(2),
        F_BLOCK4 => Layout::BlockN(4),
        F_BLOCK | F_EXPRLOC => Layout::BlockUleb,
        F_DATA1 | F_FLAG | F_REF1 | F_STRX1 | F_ADDRX1 => Layout::Fixed(1),
        F_DATA2 | F_REF2 | F_STRX2 | F_ADDRX2 => Layout::Fixed(2),
        F_STRX3 | F_ADDRX3 => Layout::Fixed(3),
        F_DATA4 | F_REF4 | F_REF_SUP4 | F_STRX4 | F_ADDRX4 => Layout::Fixed(4),
        F_DATA8 | F_REF8 | F_REF_SIG8 | F_REF_SUP8 => Layout::Fixed(8),
        F_DATA16 => Layout::Fixed(16),
        F_FLAG_PRESENT => Layout::Fixed(0),
        F_SEC_OFFSET | F_STRP | F_LINE_STRP | F_STRP_SUP | F_GNU_STRP_ALT | F_GNU_REF_ALT => Layout::Fixed(word),
        F_REF_ADDR => Layout::Fixed(if enc.version == 2 { addr } else { word }),
        F_UDATA | F_REF_UDATA | F_STRX | F_GNU_STR_INDEX | F_ADDRX | F_GNU_ADDR_INDEX | F_LOCLISTX | F_RNGLISTX => {
            Layout::Uleb
        }
        F_SDATA => Layout::Sleb,
        F_STRING => Layout::CStr,
        F_INDIRECT => Layout::Indirect,
        F_IMPLICIT_CONST => Layout::ImplicitConst,
        _ => return None,
    })
}

/// The fixed-size table: `Some(n)` iff the encoded size of `form` does not depend on the data.
pub fn fixed_size(form: u16, enc: Enc) -> Option<usize> {
    match layout(form, enc)? {
        Layout::Fixed(n) => Some(n),
        Layout::ImplicitConst => Some(0),
        _ => None,
    }
}

#[derive(Clone, Copy, Debug, PartialEq, Eq, Hash)]
pub enum Class {
    Addr,
    Block,
    Data1,
    Data2,
    Data4,
    Data8,
    Data16,
    Sdata,
    Udata,
    Exprloc,
    Flag,
    SecOffset,
    UnitRef,
    DebugInfoRef,
    DebugInfoRefSup,
    DebugTypesRef,
    DebugStrRef,
    DebugStrRefSup,
    DebugLineStrRef,
    String,
    StrOffsetsIndex,
    AddrIndex,
    LocListsIndex,
    RngListsIndex,
}

/// Value class of (final, non-indirect) `form` under attribute `name` in a unit `enc`.
pub fn class(form: u16, name: u16, enc: Enc) -> Option<Class> {
    Some(match form {
        F_ADDR => Class::Addr,
        F_BLOCK | F_BLOCK1 | F_BLOCK2 | F_BLOCK4 => Class::Block,
        F_DATA1 => Class::Data1,
        F_DATA2 => Class::Data2,
        F_DATA4 => {
            if !enc.fmt64 && legacy_secoffset_name(name, enc.version) {
                Class::SecOffset
            } else {
                Class::Data4
            }
        }
        F_DATA8 => {
            if enc.fmt64 && legacy_secoffset_name(name, enc.version) {
                Class::SecOffset
            } else {
                Class::Data8
            }
        }
        F_DATA16 => Class::Data16,
        F_UDATA => Class::Udata,
        F_SDATA | F_IMPLICIT_CONST => Class::Sdata,
        F_EXPRLOC => Class::Exprloc,
        F_FLAG | F_FLAG_PRESENT => Class::Flag,
        F_SEC_OFFSET => Class::SecOffset,
        F_REF1 | F_REF2 | F_REF4 | F_REF8 | F_REF_UDATA => Class::UnitRef,
        F_REF_ADDR => Class::DebugInfoRef,
        F_REF_SUP4 | F_REF_SUP8 | F_GNU_REF_ALT => Class::DebugInfoRefSup,
        F_REF_SIG8 => Class::DebugTypesRef,
        F_STRP => Class::DebugStrRef,
        F_STRP_SUP | F_GNU_STRP_ALT => Class::DebugStrRefSup,
        F_LINE_STRP => Class::DebugLineStrRef,
        F_STRING => Class::String,
        F_STRX | F_STRX1 | F_STRX2 | F_STRX3 | F_STRX4 | F_GNU_STR_INDEX => Class::StrOffsetsIndex,
        F_ADDRX | F_ADDRX1 | F_ADDRX2 | F_ADDRX3 | F_ADDRX4 | F_GNU_ADDR_INDEX => Class::AddrIndex,
        F_LOCLISTX => Class::LocListsIndex,
        F_RNGLISTX => Class::RngListsIndex,
        _ => return None,
    })
}

/// Payload of a value, independent of its class.
#[derive(Clone, Debug, PartialEq, Eq)]
pub enum Pay {
    /// mathematical integer (unsigned classes: the zero-extended bits; Sdata: the signed value)
    Int(i128),
    /// 128-bit constant
    Big(u128),
    Bytes(Vec<u8>),
    Flag(bool),
}

#[derive(Clone, Debug, PartialEq, Eq)]
pub struct MVal {
    pub class: Class,
    pub pay: Pay,
}

#[derive(Clone, Copy, Debug, PartialEq, Eq)]
pub enum Reject {
    /// DW_FORM_implicit_const reached through DW_FORM_indirect
    IndirectImplicitConst,
    /// form code not defined by DWARF 2-5 / GNU
    UnknownForm,
}

#[derive(Clone, Debug, PartialEq, Eq)]
pub enum Expect {
    Val(MVal),
    Reject(Reject),
}

// ------------------------------------------------------------------ numeric accessors

/// `udata_value()`: the unsigned reading of a constant.  `Some(Some(v))` = must be `Some(v)`,
/// `Some(None)` = must be `None`.
pub fn model_udata(v: &MVal) -> Option<u64> {
    match (v.class, &v.pay) {
        (Class::Data1 | Class::Data2 | Class::Data4 | Class::Data8 | Class::Udata, Pay::Int(i)) => Some(*i as u64),
        (Class::Sdata, Pay::Int(i)) => {
            if *i >= 0 {
                Some(*i as u64)
            } else {
                None
            }
        }
        _ => None,
    }
}

/// `sdata_value()`: the signed (two's complement at the form's width) reading of a constant.
pub fn model_sdata(v: &MVal) -> Option<i64> {
    match (v.class, &v.pay) {
        (Class::Data1, Pay::Int(i)) => Some(sign_extend(*i as u64, 8)),
        (Class::Data2, Pay::Int(i)) => Some(sign_extend(*i as u64, 16)),
        (Class::Data4, Pay::Int(i)) => Some(sign_extend(*i as u64, 32)),
        (Class::Data8, Pay::Int(i)) => Some(sign_extend(*i as u64, 64)),
        (Class::Sdata, Pay::Int(i)) => Some(*i as i64),
        (Class::Udata, Pay::Int(i)) => {
            if *i <= i64::MAX as i128 {
                Some(*i as i64)
            } else {
                None
            }
        }
        _ => None,
    }
}

pub fn sign_extend(v: u64, bits: u32) -> i64 {
    if bits >= 64 {
        return v as i64;
    }
    let m = 1u64 << (bits - 1);
    let low = v & ((1u64 << bits) - 1);
    if low & m != 0 {
        (low | !((1u64 << bits) - 1)) as i64
    } else {
        low as i64
    }
}

pub fn model_u8(v: &MVal) -> Option<u8> {
    model_udata(v).and_then(|x| if x <= 0xff { Some(x as u8) } else { None })
}
pub fn model_u16(v: &MVal) -> Option<u16> {
    model_udata(v).and_then(|x| if x <= 0xffff { Some(x as u16) } else { None })
}
/// `offset_value()`: only section offsets.
pub fn model_offset(v: &MVal) -> Option<u64> {
    match (v.class, &v.pay) {
        (Class::SecOffset, Pay::Int(i)) => Some(*i as u64),
        _ => None,
    }
}
/// `exprloc_value()`: the bytes of an exprloc or of a block.
pub fn model_exprloc(v: &MVal) -> Option<Vec<u8>> {
    match (v.class, &v.pay) {
        (Class::Exprloc | Class::Block, Pay::Bytes(b)) => Some(b.clone()),
        _ => None,
    }
}

// ------------------------------------------------------------------ value() normalisation (variant: secondary)

/// Name of the `AttributeValue` variant that `value()` is expected to return for raw value
/// `v` under attribute `name` (Appendix A.2).  The *payload* must always equal the raw
/// payload; the variant is compared as a secondary observation only.
pub fn norm_variant(name: u16, v: &MVal) -> &'static str {
    let raw = raw_variant(v.class);
    let is_block = matches!(v.class, Class::Block | Class::Exprloc);
    let is_off = v.class == Class::SecOffset;
    let ud = model_udata(v);
    let exprloc = |fallback: &'static str| if is_block { "Exprloc" } else { fallback };
    match name {
        AT_LOCATION | AT_STRING_LENGTH | AT_RETURN_ADDR | AT_FRAME_BASE | AT_SEGMENT | AT_STATIC_LINK
        | AT_USE_LOCATION | AT_VTABLE_ELEM_LOCATION => {
            if is_block {
                "Exprloc"
            } else if is_off {
                "LocationListsRef"
            } else {
                raw
            }
        }
        AT_DATA_MEMBER_LOCATION => {
            if ud.is_some() {
                "Udata"
            } else if is_block {
                "Exprloc"
            } else if is_off {
                "LocationListsRef"
            } else {
                raw
            }
        }
        AT_STMT_LIST => if is_off { "DebugLineRef" } else { raw },
        AT_RANGES | AT_START_SCOPE => if is_off { "RangeListsRef" } else { raw },
        AT_MACRO_INFO => if is_off { "DebugMacinfoRef" } else { raw },
        AT_MACROS => if is_off { "DebugMacroRef" } else { raw },
        AT_STR_OFFSETS_BASE => if is_off { "DebugStrOffsetsBase" } else { raw },
        AT_ADDR_BASE | AT_GNU_ADDR_BASE => if is_off { "DebugAddrBase" } else { raw },
        AT_RNGLISTS_BASE | AT_GNU_RANGES_BASE => if is_off { "DebugRngListsBase" } else { raw },
        AT_LOCLISTS_BASE => if is_off { "DebugLocListsBase" } else { raw },
        AT_LOWER_BOUND | AT_UPPER_BOUND | AT_COUNT | AT_ALLOCATED | AT_ASSOCIATED | AT_DATA_LOCATION | AT_RANK
        | AT_CALL_VALUE | AT_CALL_ORIGIN | AT_CALL_TARGET | AT_CALL_TARGET_CLOBBERED | AT_CALL_DATA_LOCATION
        | AT_CALL_DATA_VALUE => exprloc(raw),
        AT_BYTE_SIZE | AT_BIT_OFFSET | AT_BIT_SIZE | AT_BIT_STRIDE | AT_BYTE_STRIDE => {
            if ud.is_some() {
                "Udata"
            } else {
                exprloc(raw)
            }
        }
        AT_DECL_COLUMN | AT_DECL_LINE | AT_CALL_COLUMN | AT_CALL_LINE | AT_HIGH_PC => {
            if ud.is_some() {
                "Udata"
            } else {
                raw
            }
        }
        AT_DECL_FILE | AT_CALL_FILE => if ud.is_some() { "FileIndex" } else { raw },
        AT_GNU_DWO_ID => if ud.is_some() { "DwoId" } else { raw },
        AT_LANGUAGE => if model_u16(v).is_some() { "Language" } else { raw },
        AT_ADDRESS_CLASS => if ud.is_some() { "AddressClass" } else { raw },
        AT_ORDERING => if model_u8(v).is_some() { "Ordering" } else { raw },
        AT_VISIBILITY => if model_u8(v).is_some() { "Visibility" } else { raw },
        AT_INLINE => if model_u8(v).is_some() { "Inline" } else { raw },
        AT_ACCESSIBILITY => if model_u8(v).is_some() { "Accessibility" } else { raw },
        AT_CALLING_CONVENTION => if model_u8(v).is_some() { "CallingConvention" } else { raw },
        AT_ENCODING => if model_u8(v).is_some() { "Encoding" } else { raw },
        AT_IDENTIFIER_CASE => if model_u8(v).is_some() { "IdentifierCase" } else { raw },
        AT_VIRTUALITY => if model_u8(v).is_some() { "Virtuality" } else { raw },
        AT_DECIMAL_SIGN => if model_u8(v).is_some() { "DecimalSign" } else { raw },
        AT_ENDIANITY => if model_u8(v).is_some() { "Endianity" } else { raw },
        _ => raw,
    }
}

/// Variant name of gimli's `AttributeValue` that carries raw class `c`.
pub fn raw_variant(c: Class) -> &'static str {
    match c {
        Class::Addr => "Addr",
        Class::Block => "Block",
        Class::Data1 => "Data1",
        Class::Data2 => "Data2",
        Class::Data4 => "Data4",
        Class::Data8 => "Data8",
        Class::Data16 => "Data16",
        Class::Sdata => "Sdata",
        Class::Udata => "Udata",
        Class::Exprloc => "Exprloc",
        Class::Flag => "Flag",
        Class::SecOffset => "SecOffset",
        Class::UnitRef => "UnitRef",
        Class::DebugInfoRef => "DebugInfoRef",
        Class::DebugInfoRefSup => "DebugInfoRefSup",
        Class::DebugTypesRef => "DebugTypesRef",
        Class::DebugStrRef => "DebugStrRef",
        Class::DebugStrRefSup => "DebugStrRefSup",
        Class::DebugLineStrRef => "DebugLineStrRef",
        Class::String => "String",
        Class::StrOffsetsIndex => "DebugStrOffsetsIndex",
        Class::AddrIndex => "DebugAddrIndex",
        Class::LocListsIndex => "DebugLocListsIndex",
        Class::RngListsIndex => "DebugRngListsIndex",
    }
}

// ------------------------------------------------------------------ observation glue (gimli -> model vocabulary)

/// What gimli reported for one value, in the model's vocabulary.
#[derive(Clone, Debug, PartialEq, Eq)]
pub struct OVal {
    /// name of the `AttributeValue` variant
    pub variant: &'static str,
    /// raw class if the variant is one of the raw (non-normalised) classes
    pub class: Option<Class>,
    pub pay: Pay,
}

fn rbytes<R: gimli::Reader>(r: &R) -> Vec<u8> {
    r.to_slice().map(|c| c.to_vec()).unwrap_or_default()
}

fn off<T: gimli::ReaderOffset>(t: T) -> Pay {
    Pay::Int(t.into_u64() as i128)
}

/// Translate an `AttributeValue` (no decoding happens here).
pub fn observe<R: gimli::Reader>(av: &gimli::AttributeValue<R>) -> OVal {
    use gimli::AttributeValue as A;
    let (variant, class, pay) = match av {
        A::Addr(a) => ("Addr", Some(Class::Addr), Pay::Int(*a as i128)),
        A::Block(r) => ("Block", Some(Class::Block), Pay::Bytes(rbytes(r))),
        A::Data1(x) => ("Data1", Some(Class::Data1), Pay::Int(*x as i128)),
        A::Data2(x) => ("Data2", Some(Class::Data2), Pay::Int(*x as i128)),
        A::Data4(x) => ("Data4", Some(Class::Data4), Pay::Int(*x as i128)),
        A::Data8(x) => ("Data8", Some(Class::Data8), Pay::Int(*x as i128)),
        A::Data16(x) => ("Data16", Some(Class::Data16), Pay::Big(*x)),
        A::Sdata(x) => ("Sdata", Some(Class::Sdata), Pay::Int(*x as i128)),
        A::Udata(x) => ("Udata", Some(Class::Udata), Pay::Int(*x as i128)),
        A::Exprloc(e) => ("Exprloc", Some(Class::Exprloc), Pay::Bytes(rbytes(&e.0))),
        A::Flag(b) => ("Flag", Some(Class::Flag), Pay::Flag(*b)),
        A::SecOffset(o) => ("SecOffset", Some(Class::SecOffset), off(*o)),
        A::DebugAddrBase(b) => ("DebugAddrBase", None, off(b.0)),
        A::DebugAddrIndex(i) => ("DebugAddrIndex", Some(Class::AddrIndex), off(i.0)),
        A::UnitRef(o) => ("UnitRef", Some(Class::UnitRef), off(o.0)),
        A::DebugInfoRef(o) => ("DebugInfoRef", Some(Class::DebugInfoRef), off(o.0)),
        A::DebugInfoRefSup(o) => ("DebugInfoRefSup", Some(Class::DebugInfoRefSup), off(o.0)),
        A::DebugLineRef(o) => ("DebugLineRef", None, off(o.0)),
        A::LocationListsRef(o) => ("LocationListsRef", None, off(o.0)),
        A::DebugLocListsBase(o) => ("DebugLocListsBase", None, off(o.0)),
        A::DebugLocListsIndex(o) => ("DebugLocListsIndex", Some(Class::LocListsIndex), off(o.0)),
        A::DebugMacinfoRef(o) => ("DebugMacinfoRef", None, off(o.0)),
        A::DebugMacroRef(o) => ("DebugMacroRef", None, off(o.0)),
        A::RangeListsRef(o) => ("RangeListsRef", None, off(o.0)),
        A::DebugRngListsBase(o) => ("DebugRngListsBase", None, off(o.0)),
        A::DebugRngListsIndex(o) => ("DebugRngListsIndex", Some(Class::RngListsIndex), off(o.0)),
        A::DebugTypesRef(s) => ("DebugTypesRef", Some(Class::DebugTypesRef), Pay::Int(s.0 as i128)),
        A::DebugStrRef(o) => ("DebugStrRef", Some(Class::DebugStrRef), off(o.0)),
        A::DebugStrRefSup(o) => ("DebugStrRefSup", Some(Class::DebugStrRefSup), off(o.0)),
        A::DebugStrOffsetsBase(o) => ("DebugStrOffsetsBase", None, off(o.0)),
        A::DebugStrOffsetsIndex(o) => ("DebugStrOffsetsIndex", Some(Class::StrOffsetsIndex), off(o.0)),
        A::DebugLineStrRef(o) => ("DebugLineStrRef", Some(Class::DebugLineStrRef), off(o.0)),
        A::String(r) => ("String", Some(Class::String), Pay::Bytes(rbytes(r))),
        A::Encoding(x) => ("Encoding", None, Pay::Int(x.0 as i128)),
        A::DecimalSign(x) => ("DecimalSign", None, Pay::Int(x.0 as i128)),
        A::Endianity(x) => ("Endianity", None, Pay::Int(x.0 as i128)),
        A::Accessibility(x) => ("Accessibility", None, Pay::Int(x.0 as i128)),
        A::Visibility(x) => ("Visibility", None, Pay::Int(x.0 as i128)),
        A::Virtuality(x) => ("Virtuality", None, Pay::Int(x.0 as i128)),
        A::Language(x) => ("Language", None, Pay::Int(x.0 as i128)),
        A::AddressClass(x) => ("AddressClass", None, Pay::Int(x.0 as i128)),
        A::IdentifierCase(x) => ("IdentifierCase", None, Pay::Int(x.0 as i128)),
        A::CallingConvention(x) => ("CallingConvention", None, Pay::Int(x.0 as i128)),
        A::Inline(x) => ("Inline", None, Pay::Int(x.0 as i128)),
        A::Ordering(x) => ("Ordering", None, Pay::Int(x.0 as i128)),
        A::FileIndex(x) => ("FileIndex", None, Pay::Int(*x as i128)),
        A::DwoId(x) => ("DwoId", None, Pay::Int(x.0 as i128)),
    };
    OVal { variant, class, pay }
}

//! Reference model for range and location lists (C08), written from the DWARF standard
//! (DWARF 2-4 section 2.17.3 / 2.6.2 for `.debug_ranges` / `.debug_loc`, DWARF 5 sections
//! 2.17.3, 2.6.2, 7.7.3, 7.25, 7.27, 7.28, 7.29 for `.debug_rnglists` / `.debug_loclists` /
//! `.debug_addr`, the GNU DebugFission proposal for `.debug_loc.dwo`) and DESIGN.md
//! Appendix A.7.  Nothing here calls into gimli.
//!
//! Pinned choices (the standard is silent; listed in C08's `assumptions`):
//!  * sums (`base + offset`, `begin + length`) wrap to the address size;
//!  * the filter: an entry is dropped when `begin >= 2^(8*size) - 2` (tombstone), when
//!    `begin >= end`, and (offset pairs only) when the running base is `>= 2^(8*size) - 2`;
//!  * `DW_LLE_default_location` is reported with the range `[0, 2^64 - 1)`;
//!  * a list that runs into the end of its section exactly at an entry boundary just ends.

/// DW_RLE_* / DW_LLE_* codes (DWARF 5 tables 7.10 and 7.25).
pub const RLE_END_OF_LIST: u8 = 0;
pub const RLE_BASE_ADDRESSX: u8 = 1;
pub const RLE_STARTX_ENDX: u8 = 2;
pub const RLE_STARTX_LENGTH: u8 = 3;
pub const RLE_OFFSET_PAIR: u8 = 4;
pub const RLE_BASE_ADDRESS: u8 = 5;
pub const RLE_START_END: u8 = 6;
pub const RLE_START_LENGTH: u8 = 7;

pub const LLE_END_OF_LIST: u8 = 0;
pub const LLE_BASE_ADDRESSX: u8 = 1;
pub const LLE_STARTX_ENDX: u8 = 2;
pub const LLE_STARTX_LENGTH: u8 = 3;
pub const LLE_OFFSET_PAIR: u8 = 4;
pub const LLE_DEFAULT_LOCATION: u8 = 5;
pub const LLE_BASE_ADDRESS: u8 = 6;
pub const LLE_START_END: u8 = 7;
pub const LLE_START_LENGTH: u8 = 8;

/// How a list is encoded.
#[derive(Clone, Copy, Debug, PartialEq, Eq, Hash)]
pub enum Flavor {
    /// `.debug_ranges`: pairs of addresses.
    Ranges,
    /// `.debug_loc`: pairs of addresses + u16 length + expression.
    Loc,
    /// `.debug_rnglists`: DW_RLE_*.
    Rle,
    /// `.debug_loclists`: DW_LLE_* with ULEB128 expression length.
    Lle,
    /// GNU split DWARF `.debug_loc.dwo` (version <= 4): DW_LLE_* numbering with a u16
    /// expression length and a u32 length operand in startx_length.
    GnuLle,
}

impl Flavor {
    pub fn is_loc(self) -> bool {
        matches!(self, Flavor::Loc | Flavor::Lle | Flavor::GnuLle)
    }
    pub fn is_legacy(self) -> bool {
        matches!(self, Flavor::Ranges | Flavor::Loc)
    }
    pub fn name(self) -> &'static str {
        match self {
            Flavor::Ranges => "ranges",
            Flavor::Loc => "loc",
            Flavor::Rle => "rle",
            Flavor::Lle => "lle",
            Flavor::GnuLle => "gnulle",
        }
    }
}

/// One encoded list entry (everything but the end-of-list entry).  Location entries carry
/// the expression bytes in `data`; range entries have `None`.
#[derive(Clone, Debug, PartialEq, Eq, Hash)]
pub enum Item {
    /// legacy pair that is neither (0,0) nor a base selection
    Pair(u64, u64, Option<Vec<u8>>),
    /// base address given as an address (legacy (all-ones, addr) or DW_*_base_address)
    Base(u64),
    /// DW_*_base_addressx
    Basex(u64),
    StartxEndx(u64, u64, Option<Vec<u8>>),
    StartxLength(u64, u64, Option<Vec<u8>>),
    OffsetPair(u64, u64, Option<Vec<u8>>),
    Default(Vec<u8>),
    StartEnd(u64, u64, Option<Vec<u8>>),
    StartLength(u64, u64, Option<Vec<u8>>),
}

impl Item {
    pub fn kind(&self) -> &'static str {
        match self {
            Item::Pair(..) => "pair",
            Item::Base(..) => "base_address",
            Item::Basex(..) => "base_addressx",
            Item::StartxEndx(..) => "startx_endx",
            Item::StartxLength(..) => "startx_length",
            Item::OffsetPair(..) => "offset_pair",
            Item::Default(..) => "default_location",
            Item::StartEnd(..) => "start_end",
            Item::StartLength(..) => "start_length",
        }
    }
    pub fn data(&self) -> Option<&Vec<u8>> {
        match self {
            Item::Pair(_, _, d)
            | Item::StartxEndx(_, _, d)
            | Item::StartxLength(_, _, d)
            | Item::OffsetPair(_, _, d)
            | Item::StartEnd(_, _, d)
            | Item::StartLength(_, _, d) => d.as_ref(),
            Item::Default(d) => Some(d),
            _ => None,
        }
    }
}

pub fn addr_mask(size: u8) -> u64 {
    if size >= 8 {
        u64::MAX
    } else {
        (1u64 << (8 * size as u32)) - 1
    }
}

/// Smallest tombstone address: 2^(8*size) - 2.
pub fn tombstone(size: u8) -> u64 {
    addr_mask(size).wrapping_sub(1)
}

fn rd_uint(b: &[u8], le: bool, n: usize) -> u64 {
    let mut v = 0u64;
    for i in 0..n {
        let byte = if le { b[n - 1 - i] } else { b[i] };
        v = (v << 8) | byte as u64;
    }
    v
}

/// Why decoding of a list stopped.
#[derive(Clone, Copy, Debug, PartialEq, Eq)]
pub enum End {
    /// an end-of-list entry was decoded
    EndOfList,
    /// the section ended exactly at an entry boundary (no end-of-list entry)
    Exhausted,
    /// the section ended inside an entry
    Truncated,
    /// an entry kind the standard does not define
    UnknownKind(u8),
    /// a ULEB128 operand of at most 10 bytes whose value does not fit 64 bits
    BadLeb,
    /// a ULEB128 operand longer than the canonical maximum: acceptance is not fixed
    Ambiguous,
}

impl End {
    pub fn is_clean(self) -> bool {
        matches!(self, End::EndOfList | End::Exhausted)
    }
    /// the reader must report an error (or at least must not yield another entry)
    pub fn is_error(self) -> bool {
        matches!(self, End::Truncated | End::UnknownKind(_) | End::BadLeb)
    }
}

#[derive(Clone, Debug, PartialEq, Eq)]
pub struct Decoded {
    pub items: Vec<Item>,
    pub end: End,
    /// bytes consumed, including the end-of-list entry when there is one
    pub consumed: usize,
}

struct Cur<'a> {
    b: &'a [u8],
    pos: usize,
    le: bool,
}

enum Stop {
    Trunc,
    BadLeb,
    Ambiguous,
}

impl<'a> Cur<'a> {
    fn left(&self) -> usize {
        self.b.len() - self.pos
    }
    fn uint(&mut self, n: usize) -> Result<u64, Stop> {
        if self.left() < n {
            return Err(Stop::Trunc);
        }
        let v = rd_uint(&self.b[self.pos..], self.le, n);
        self.pos += n;
        Ok(v)
    }
    fn uleb(&mut self) -> Result<u64, Stop> {
        let mut v: u128 = 0;
        let mut i = 0usize;
        loop {
            if self.pos + i >= self.b.len() {
                // no terminator: over-long streams of continuation bytes are ambiguous
                // (an error either way, but which one is not fixed); plain truncation otherwise
                return Err(if i >= 10 { Stop::Ambiguous } else { Stop::Trunc });
            }
            let x = self.b[self.pos + i];
            if i < 18 {
                v |= ((x & 0x7f) as u128) << (7 * i as u32);
            } else if x & 0x7f != 0 {
                v = u128::MAX;
            }
            i += 1;
            if x & 0x80 == 0 {
                break;
            }
        }
        if i > 10 {
            return Err(Stop::Ambiguous);
        }
        if v > u64::MAX as u128 {
            return Err(Stop::BadLeb);
        }
        self.pos += i;
        Ok(v as u64)
    }
    fn data(&mut self, len: u64) -> Result<Vec<u8>, Stop> {
        if (self.left() as u64) < len {
            return Err(Stop::Trunc);
        }
        let n = len as usize;
        let v = self.b[self.pos..self.pos + n].to_vec();
        self.pos += n;
        Ok(v)
    }
}

/// Decode the list that starts at `off` in `sec`.  `None` when `off` is beyond the section.
pub fn decode(sec: &[u8], off: u64, flavor: Flavor, le: bool, addr: u8) -> Option<Decoded> {
    if off > sec.len() as u64 {
        return None;
    }
    let mut c = Cur { b: sec, pos: off as usize, le };
    let start = c.pos;
    let mask = addr_mask(addr);
    let a = addr as usize;
    let mut items = vec![];
    let end;
    loop {
        if c.left() == 0 {
            end = End::Exhausted;
            break;
        }
        let entry_start = c.pos;
        let r: Result<Option<Item>, Result<Stop, u8>> = (|| {
            match flavor {
                Flavor::Ranges | Flavor::Loc => {
                    let b = c.uint(a).map_err(Ok)?;
                    let e = c.uint(a).map_err(Ok)?;
                    if b == 0 && e == 0 {
                        return Ok(None);
                    }
                    if b == mask {
                        return Ok(Some(Item::Base(e)));
                    }
                    if flavor == Flavor::Loc {
                        let n = c.uint(2).map_err(Ok)?;
                        let d = c.data(n).map_err(Ok)?;
                        Ok(Some(Item::Pair(b, e, Some(d))))
                    } else {
                        Ok(Some(Item::Pair(b, e, None)))
                    }
                }
                Flavor::Rle => {
                    let k = c.uint(1).map_err(Ok)? as u8;
                    match k {
                        RLE_END_OF_LIST => Ok(None),
                        RLE_BASE_ADDRESSX => Ok(Some(Item::Basex(c.uleb().map_err(Ok)?))),
                        RLE_STARTX_ENDX => {
                            let b = c.uleb().map_err(Ok)?;
                            let e = c.uleb().map_err(Ok)?;
                            Ok(Some(Item::StartxEndx(b, e, None)))
                        }
                        RLE_STARTX_LENGTH => {
                            let b = c.uleb().map_err(Ok)?;
                            let l = c.uleb().map_err(Ok)?;
                            Ok(Some(Item::StartxLength(b, l, None)))
                        }
                        RLE_OFFSET_PAIR => {
                            let b = c.uleb().map_err(Ok)?;
                            let e = c.uleb().map_err(Ok)?;
                            Ok(Some(Item::OffsetPair(b, e, None)))
                        }
                        RLE_BASE_ADDRESS => Ok(Some(Item::Base(c.uint(a).map_err(Ok)?))),
                        RLE_START_END => {
                            let b = c.uint(a).map_err(Ok)?;
                            let e = c.uint(a).map_err(Ok)?;
                            Ok(Some(Item::StartEnd(b, e, None)))
                        }
                        RLE_START_LENGTH => {
                            let b = c.uint(a).map_err(Ok)?;
                            let l = c.uleb().map_err(Ok)?;
                            Ok(Some(Item::StartLength(b, l, None)))
                        }
                        other => Err(Err(other)),
                    }
                }
                Flavor::Lle | Flavor::GnuLle => {
                    let gnu = flavor == Flavor::GnuLle;
                    let k = c.uint(1).map_err(Ok)? as u8;
                    // expression: ULEB128 length (v5) or u16 length (GNU) + bytes
                    macro_rules! expr {
                        () => {{
                            let n = if gnu { c.uint(2).map_err(Ok)? } else { c.uleb().map_err(Ok)? };
                            c.data(n).map_err(Ok)?
                        }};
                    }
                    match k {
                        LLE_END_OF_LIST => Ok(None),
                        LLE_BASE_ADDRESSX => Ok(Some(Item::Basex(c.uleb().map_err(Ok)?))),
                        LLE_STARTX_ENDX => {
                            let b = c.uleb().map_err(Ok)?;
                            let e = c.uleb().map_err(Ok)?;
                            let d = expr!();
                            Ok(Some(Item::StartxEndx(b, e, Some(d))))
                        }
                        LLE_STARTX_LENGTH => {
                            let b = c.uleb().map_err(Ok)?;
                            let l = if gnu { c.uint(4).map_err(Ok)? } else { c.uleb().map_err(Ok)? };
                            let d = expr!();
                            Ok(Some(Item::StartxLength(b, l, Some(d))))
                        }
                        LLE_OFFSET_PAIR => {
                            let b = c.uleb().map_err(Ok)?;
                            let e = c.uleb().map_err(Ok)?;
                            let d = expr!();
                            Ok(Some(Item::OffsetPair(b, e, Some(d))))
                        }
                        LLE_DEFAULT_LOCATION => {
                            let d = expr!();
                            Ok(Some(Item::Default(d)))
                        }
                        LLE_BASE_ADDRESS => Ok(Some(Item::Base(c.uint(a).map_err(Ok)?))),
                        LLE_START_END => {
                            let b = c.uint(a).map_err(Ok)?;
                            let e = c.uint(a).map_err(Ok)?;
                            let d = expr!();
                            Ok(Some(Item::StartEnd(b, e, Some(d))))
                        }
                        LLE_START_LENGTH => {
                            let b = c.uint(a).map_err(Ok)?;
                            let l = c.uleb().map_err(Ok)?;
                            let d = expr!();
                            Ok(Some(Item::StartLength(b, l, Some(d))))
                        }
                        other => Err(Err(other)),
                    }
                }
            }
        })();
        match r {
            Ok(Some(it)) => items.push(it),
            Ok(None) => {
                end = End::EndOfList;
                break;
            }
            Err(Ok(Stop::Trunc)) => {
                c.pos = entry_start;
                end = End::Truncated;
                break;
            }
            Err(Ok(Stop::BadLeb)) => {
                c.pos = entry_start;
                end = End::BadLeb;
                break;
            }
            Err(Ok(Stop::Ambiguous)) => {
                c.pos = entry_start;
                end = End::Ambiguous;
                break;
            }
            Err(Err(k)) => {
                c.pos = entry_start;
                end = End::UnknownKind(k);
                break;
            }
        }
    }
    Some(Decoded { items, end, consumed: c.pos - start })
}

// ---------------------------------------------------------------- address table

/// `.debug_addr[addr_base + index * address_size]`, `None` when that slot is not inside the
/// section (or the arithmetic leaves 64 bits).
pub fn lookup_addr(debug_addr: &[u8], le: bool, size: u8, addr_base: u64, index: u64) -> Option<u64> {
    let off = (addr_base as u128) + (index as u128) * (size as u128);
    let end = off + size as u128;
    if end > debug_addr.len() as u128 {
        return None;
    }
    Some(rd_uint(&debug_addr[off as usize..], le, size as usize))
}

/// Size of the header of a `.debug_rnglists` / `.debug_loclists` / table:
/// unit_length, version(2), address_size(1), segment_selector_size(1), offset_entry_count(4).
pub fn lists_header_size(fmt64: bool) -> u64 {
    (if fmt64 { 12 } else { 4 }) + 2 + 1 + 1 + 4
}

/// Offset-table lookup for DW_FORM_rnglistx / DW_FORM_loclistx:
/// `base + table[base + index * word_size]`.
pub fn table_offset(sec: &[u8], le: bool, fmt64: bool, base: u64, index: u64) -> Option<u64> {
    let w: u128 = if fmt64 { 8 } else { 4 };
    let off = base as u128 + index as u128 * w;
    if off + w > sec.len() as u128 {
        return None;
    }
    let v = rd_uint(&sec[off as usize..], le, w as usize);
    base.checked_add(v)
}

/// Base of the offset table when the unit has no DW_AT_rnglists_base / DW_AT_loclists_base:
/// in a version 5 .dwo file the (only) table starts right after the header; otherwise 0.
pub fn default_lists_base(version: u16, dwo: bool, fmt64: bool) -> u64 {
    if version >= 5 && dwo {
        lists_header_size(fmt64)
    } else {
        0
    }
}

/// DW_AT_ranges with a section offset: in a GNU split DWARF (version < 5) .dwo unit the
/// offset is relative to DW_AT_GNU_ranges_base; otherwise it is the section offset.
pub fn ranges_offset_from_raw(dwo: bool, version: u16, raw: u64, rnglists_base: u64) -> u64 {
    if dwo && version < 5 {
        raw.wrapping_add(rnglists_base)
    } else {
        raw
    }
}

// ---------------------------------------------------------------- resolution

#[derive(Clone, Copy, Debug)]
pub struct ResolveCtx<'a> {
    pub addr_size: u8,
    pub le: bool,
    /// base address of the unit (DW_AT_low_pc of the unit DIE, 0 when absent)
    pub base: u64,
    pub debug_addr: &'a [u8],
    pub addr_base: u64,
}

#[derive(Clone, Debug, PartialEq, Eq)]
pub struct Res {
    pub begin: u64,
    pub end: u64,
    pub data: Option<Vec<u8>>,
}

/// How the resolved iteration ends.
#[derive(Clone, Copy, Debug, PartialEq, Eq)]
pub enum ResEnd {
    /// all items consumed; what follows is determined by the decode `End`
    Items,
    /// `.debug_addr` lookup for item `usize` failed: an error must be reported there
    AddrLookup(usize),
}

#[derive(Clone, Debug, Default)]
pub struct Stats {
    pub yielded: u64,
    pub drop_tomb_begin: u64,
    pub drop_empty: u64,
    pub drop_inverted: u64,
    pub drop_tomb_base: u64,
    pub base_changes: u64,
    pub addr_lookups: u64,
    pub wrapped: u64,
}

#[derive(Clone, Debug)]
pub struct Resolved {
    pub out: Vec<Res>,
    pub end: ResEnd,
    pub stats: Stats,
}

pub fn resolve(items: &[Item], cx: &ResolveCtx) -> Resolved {
    let mask = addr_mask(cx.addr_size);
    let tomb = tombstone(cx.addr_size);
    let mut base = cx.base;
    let mut out = vec![];
    let mut st = Stats::default();
    let add = |a: u64, b: u64, st: &mut Stats| -> u64 {
        let full = a as u128 + b as u128;
        if full > mask as u128 {
            st.wrapped += 1;
        }
        (full as u64) & mask
    };
    for (i, it) in items.iter().enumerate() {
        let mut look = |idx: u64, st: &mut Stats| -> Option<u64> {
            st.addr_lookups += 1;
            lookup_addr(cx.debug_addr, cx.le, cx.addr_size, cx.addr_base, idx)
        };
        let (b, e, data): (u64, u64, Option<Vec<u8>>) = match it {
            Item::Base(a) => {
                base = *a;
                st.base_changes += 1;
                continue;
            }
            Item::Basex(idx) => match look(*idx, &mut st) {
                Some(a) => {
                    base = a;
                    st.base_changes += 1;
                    continue;
                }
                None => return Resolved { out, end: ResEnd::AddrLookup(i), stats: st },
            },
            Item::StartxEndx(bi, ei, d) => {
                let Some(b) = look(*bi, &mut st) else {
                    return Resolved { out, end: ResEnd::AddrLookup(i), stats: st };
                };
                let Some(e) = look(*ei, &mut st) else {
                    return Resolved { out, end: ResEnd::AddrLookup(i), stats: st };
                };
                (b, e, d.clone())
            }
            Item::StartxLength(bi, len, d) => {
                let Some(b) = look(*bi, &mut st) else {
                    return Resolved { out, end: ResEnd::AddrLookup(i), stats: st };
                };
                (b, add(b, *len, &mut st), d.clone())
            }
            Item::Pair(b, e, d) | Item::OffsetPair(b, e, d) => {
                if base >= tomb {
                    st.drop_tomb_base += 1;
                    continue;
                }
                (add(base, *b, &mut st), add(base, *e, &mut st), d.clone())
            }
            Item::Default(d) => (0, u64::MAX, Some(d.clone())),
            Item::StartEnd(b, e, d) => (*b, *e, d.clone()),
            Item::StartLength(b, len, d) => (*b, add(*b, *len, &mut st), d.clone()),
        };
        if b >= tomb {
            st.drop_tomb_begin += 1;
            continue;
        }
        if b == e {
            st.drop_empty += 1;
            continue;
        }
        if b > e {
            st.drop_inverted += 1;
            continue;
        }
        st.yielded += 1;
        out.push(Res { begin: b, end: e, data });
    }
    Resolved { out, end: ResEnd::Items, stats: st }
}

// ---------------------------------------------------------------- DIE-level ranges

/// An address-class attribute value.
#[derive(Clone, Copy, Debug, PartialEq, Eq)]
pub enum AddrVal {
    Direct(u64),
    Index(u64),
}

/// The attributes of a DIE that matter for its ranges, in encoding order.
#[derive(Clone, Debug, PartialEq, Eq)]
pub enum DieAttr {
    LowPc(AddrVal),
    /// DW_AT_low_pc with a form that is not of class address
    LowPcBadForm,
    HighPcAddr(AddrVal),
    /// DW_AT_high_pc of class constant (data1..8, udata, non-negative sdata): offset from low_pc
    HighPcOffset(u64),
    /// DW_AT_high_pc in DW_FORM_sdata with a negative value: no defined meaning
    HighPcNegative,
    /// DW_AT_ranges, section-offset class (already through `ranges_offset_from_raw`)
    RangesOffset(u64),
    /// DW_AT_ranges, DW_FORM_rnglistx
    RangesIndex(u64),
    /// DW_AT_ranges in a form that is neither: ignored
    RangesOtherForm,
}

#[derive(Clone, Debug, PartialEq, Eq)]
pub enum DieRanges {
    /// the list at this section offset (resolved with the unit's base address)
    List(u64),
    /// `[low_pc, high_pc)` as is (not filtered), or nothing
    Single(Option<(u64, u64)>),
    /// an error must be reported
    Error,
    /// input outside what the standard defines; result not judged
    Unjudged,
}

/// `index_to_offset`: resolves a DW_FORM_rnglistx index (None = lookup fails);
/// `addr`: resolves an address index.
pub fn die_ranges(
    attrs: &[DieAttr],
    addr_size: u8,
    index_to_offset: &dyn Fn(u64) -> Option<u64>,
    addr: &dyn Fn(u64) -> Option<u64>,
) -> DieRanges {
    let mut low = None;
    let mut high = None;
    let mut size = None;
    let mut unjudged = false;
    let val = |v: &AddrVal| -> Option<u64> {
        match v {
            AddrVal::Direct(a) => Some(*a),
            AddrVal::Index(i) => addr(*i),
        }
    };
    for a in attrs {
        match a {
            DieAttr::LowPc(v) => match val(v) {
                Some(x) => low = Some(x),
                None => return DieRanges::Error,
            },
            DieAttr::LowPcBadForm => return DieRanges::Error,
            DieAttr::HighPcAddr(v) => match val(v) {
                Some(x) => high = Some(x),
                None => return DieRanges::Error,
            },
            DieAttr::HighPcOffset(o) => size = Some(*o),
            DieAttr::HighPcNegative => unjudged = true,
            DieAttr::RangesOffset(o) => {
                return if unjudged { DieRanges::Unjudged } else { DieRanges::List(*o) };
            }
            DieAttr::RangesIndex(i) => {
                if unjudged {
                    return DieRanges::Unjudged;
                }
                return match index_to_offset(*i) {
                    Some(o) => DieRanges::List(o),
                    None => DieRanges::Error,
                };
            }
            DieAttr::RangesOtherForm => {}
        }
    }
    if unjudged {
        return DieRanges::Unjudged;
    }
    match low {
        None => DieRanges::Single(None),
        Some(b) => match size {
            Some(s) => {
                let sum = b as u128 + s as u128;
                if sum > addr_mask(addr_size) as u128 {
                    // the end address does not fit the unit's address size
                    if sum > u64::MAX as u128 {
                        DieRanges::Error
                    } else {
                        DieRanges::Unjudged
                    }
                } else {
                    DieRanges::Single(Some((b, sum as u64)))
                }
            }
            None => DieRanges::Single(high.map(|e| (b, e))),
        },
    }
}

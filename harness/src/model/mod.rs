//! Reference models (independent of gimli).
pub mod cfi;
pub mod expr;
pub mod forms;
pub mod index;
pub mod line;
pub mod lists;

//! model

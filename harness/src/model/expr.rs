//! Reference model for DWARF expressions (C07): an independent decoder of every DW_OP
//! (DWARF 5 §2.5 / §7.7.1 plus the GNU 0xe0/0xf0-0xfd and WASM 0xed extensions) and a
//! reference stack machine over typed values that uses i128 arithmetic.
//!
//! Written from the DWARF 5 standard and DESIGN.md Appendix A.6, not from gimli's code.
//! The machine returns the exact sequence of external requests (with the answers it was
//! given), the final pieces / value or the error, the number of iterations (operations
//! executed) and the number of operation decodes.
//!
//! Choices where the standard is silent (the model follows the pinned tree; every such
//! choice either widens the set of acceptable errors or marks the run `tainted`, which
//! turns the comparison into a secondary observation):
//!  * which error is reported when several apply to one operation: the model lists *all*
//!    applicable kinds (`MErr::kinds`), first the one the pinned tree reports;
//!  * abs/neg of the minimum value, float -> integer conversions that do not fit, float
//!    division by zero, abs of -0.0 / NaN, `const_type` with more data bytes than the type
//!    needs, a float register answer to a `breg` with a negative offset, a composite
//!    location whose last operation is not a piece but a request (`piece 4; fbreg 0`):
//!    tainted;
//!  * `DW_OP_mod` on generic values is unsigned, `DW_OP_div` and the comparisons signed;
//!  * a generic value is address-sized: every generic value is reduced modulo
//!    2^(8*address_size) when it is pushed (so a shift count is the reduced value);
//!  * `DW_OP_convert` is value preserving between integer types (sign-extend signed
//!    sources, then truncate) and from integers to floats (a signed -1 becomes -1.0).

use crate::asm::{get_uint, Enc};

// ------------------------------------------------------------------ types and values

#[derive(Clone, Copy, Debug, PartialEq, Eq, Hash)]
pub enum Ty {
    Generic,
    I8,
    U8,
    I16,
    U16,
    I32,
    U32,
    I64,
    U64,
    F32,
    F64,
}

pub const ALL_TYPES: [Ty; 11] = [Ty::Generic, Ty::I8, Ty::U8, Ty::I16, Ty::U16, Ty::I32, Ty::U32, Ty::I64, Ty::U64, Ty::F32, Ty::F64];

impl Ty {
    pub fn is_float(self) -> bool {
        matches!(self, Ty::F32 | Ty::F64)
    }
    pub fn is_signed_int(self) -> bool {
        matches!(self, Ty::I8 | Ty::I16 | Ty::I32 | Ty::I64)
    }
    pub fn is_unsigned_typed(self) -> bool {
        matches!(self, Ty::U8 | Ty::U16 | Ty::U32 | Ty::U64)
    }
    /// Width in bits (generic: the address width).
    pub fn bits(self, addr: u8) -> u32 {
        match self {
            Ty::Generic => 8 * addr as u32,
            Ty::I8 | Ty::U8 => 8,
            Ty::I16 | Ty::U16 => 16,
            Ty::I32 | Ty::U32 | Ty::F32 => 32,
            Ty::I64 | Ty::U64 | Ty::F64 => 64,
        }
    }
    pub fn name(self) -> &'static str {
        match self {
            Ty::Generic => "generic",
            Ty::I8 => "i8",
            Ty::U8 => "u8",
            Ty::I16 => "i16",
            Ty::U16 => "u16",
            Ty::I32 => "i32",
            Ty::U32 => "u32",
            Ty::I64 => "i64",
            Ty::U64 => "u64",
            Ty::F32 => "f32",
            Ty::F64 => "f64",
        }
    }
}

pub fn width_mask(bits: u32) -> u64 {
    if bits >= 64 {
        u64::MAX
    } else {
        (1u64 << bits) - 1
    }
}

/// A stack value: type + bit pattern (zero-extended, reduced to the type's width).
#[derive(Clone, Copy, Debug, PartialEq, Eq)]
pub struct Val {
    pub ty: Ty,
    pub bits: u64,
}

pub const CANON_NAN32: u64 = 0x7fc0_0000;
pub const CANON_NAN64: u64 = 0x7ff8_0000_0000_0000;

impl Val {
    pub fn new(ty: Ty, raw: u64, addr: u8) -> Val {
        Val { ty, bits: raw & width_mask(ty.bits(addr)) }
    }
    pub fn generic(raw: u64, addr: u8) -> Val {
        Val::new(Ty::Generic, raw, addr)
    }
    pub fn f32(self) -> f32 {
        f32::from_bits(self.bits as u32)
    }
    pub fn f64(self) -> f64 {
        f64::from_bits(self.bits)
    }
    pub fn from_f32(x: f32) -> Val {
        Val { ty: Ty::F32, bits: x.to_bits() as u64 }
    }
    pub fn from_f64(x: f64) -> Val {
        Val { ty: Ty::F64, bits: x.to_bits() }
    }
    /// Unsigned reading of the bit pattern.
    pub fn unsigned(self) -> i128 {
        self.bits as i128
    }
    /// Signed (two's complement in the type's width) reading of the bit pattern.
    pub fn signed(self, addr: u8) -> i128 {
        let w = self.ty.bits(addr);
        let v = self.bits as i128;
        if w < 128 && (self.bits >> (w - 1)) & 1 == 1 {
            v - (1i128 << w)
        } else {
            v
        }
    }
    /// The mathematical value of an integer value: signed types signed, everything else
    /// (unsigned types, generic) unsigned.
    pub fn int_value(self, addr: u8) -> i128 {
        if self.ty.is_signed_int() {
            self.signed(addr)
        } else {
            self.unsigned()
        }
    }
    /// All NaNs are equal: canonical form used for comparisons with gimli.
    pub fn canon(self) -> Val {
        match self.ty {
            Ty::F32 if self.f32().is_nan() => Val { ty: Ty::F32, bits: CANON_NAN32 },
            Ty::F64 if self.f64().is_nan() => Val { ty: Ty::F64, bits: CANON_NAN64 },
            _ => self,
        }
    }
    pub fn show(self) -> String {
        match self.ty {
            Ty::F32 => format!("f32:{:?}({:#x})", self.f32(), self.bits),
            Ty::F64 => format!("f64:{:?}({:#x})", self.f64(), self.bits),
            t => format!("{}:{:#x}", t.name(), self.bits),
        }
    }
}

fn wrap(ty: Ty, x: i128, addr: u8) -> Val {
    Val::new(ty, x as u128 as u64, addr)
}

// ------------------------------------------------------------------ operations

#[derive(Clone, Copy, Debug, PartialEq, Eq)]
pub enum Ref {
    Unit(u64),
    Info(u64),
}

/// One decoded operation.  Several opcodes share a variant exactly where the standard
/// defines them as the same operation with a different operand encoding.
#[derive(Clone, Debug, PartialEq, Eq)]
pub enum Op {
    Addr(u64),
    /// deref, deref_size, deref_type, xderef, xderef_size, xderef_type
    Deref { size: u8, space: bool, base_type: u64 },
    ConstU(u64),
    ConstS(i64),
    /// dup = pick 0, over = pick 1
    Pick(u8),
    Drop,
    Swap,
    Rot,
    Abs,
    And,
    Div,
    Minus,
    Mod,
    Mul,
    Neg,
    Not,
    Or,
    Plus,
    PlusUconst(u64),
    Shl,
    Shr,
    Shra,
    Xor,
    Bra(i16),
    Skip(i16),
    Eq,
    Ge,
    Gt,
    Le,
    Lt,
    Ne,
    /// reg0..31, regx
    Reg(u16),
    /// breg0..31, bregx (base_type 0), regval_type (offset 0)
    Breg { reg: u16, off: i64, base_type: u64 },
    Fbreg(i64),
    /// piece (bits = 8 * bytes, no offset), bit_piece
    Piece { bits: u64, off: Option<u64> },
    Nop,
    PushObjectAddress,
    Call(Ref),
    VariableValue(u64),
    Tls,
    Cfa,
    ImplicitValue(Vec<u8>),
    StackValue,
    ImplicitPointer { value: u64, off: i64 },
    EntryValue(Vec<u8>),
    ParameterRef(u64),
    Addrx(u64),
    Constx(u64),
    ConstType { base_type: u64, data: Vec<u8> },
    Convert(u64),
    Reinterpret(u64),
    Uninit,
    WasmLocal(u32),
    WasmGlobal(u32),
    WasmStack(u32),
}

impl Op {
    /// Catalogue name (for coverage counters).
    pub fn name(&self) -> &'static str {
        match self {
            Op::Addr(_) => "addr",
            Op::Deref { .. } => "deref",
            Op::ConstU(_) => "constu",
            Op::ConstS(_) => "consts",
            Op::Pick(_) => "pick",
            Op::Drop => "drop",
            Op::Swap => "swap",
            Op::Rot => "rot",
            Op::Abs => "abs",
            Op::And => "and",
            Op::Div => "div",
            Op::Minus => "minus",
            Op::Mod => "mod",
            Op::Mul => "mul",
            Op::Neg => "neg",
            Op::Not => "not",
            Op::Or => "or",
            Op::Plus => "plus",
            Op::PlusUconst(_) => "plus_uconst",
            Op::Shl => "shl",
            Op::Shr => "shr",
            Op::Shra => "shra",
            Op::Xor => "xor",
            Op::Bra(_) => "bra",
            Op::Skip(_) => "skip",
            Op::Eq => "eq",
            Op::Ge => "ge",
            Op::Gt => "gt",
            Op::Le => "le",
            Op::Lt => "lt",
            Op::Ne => "ne",
            Op::Reg(_) => "reg",
            Op::Breg { .. } => "breg",
            Op::Fbreg(_) => "fbreg",
            Op::Piece { .. } => "piece",
            Op::Nop => "nop",
            Op::PushObjectAddress => "push_object_address",
            Op::Call(_) => "call",
            Op::VariableValue(_) => "variable_value",
            Op::Tls => "tls",
            Op::Cfa => "cfa",
            Op::ImplicitValue(_) => "implicit_value",
            Op::StackValue => "stack_value",
            Op::ImplicitPointer { .. } => "implicit_pointer",
            Op::EntryValue(_) => "entry_value",
            Op::ParameterRef(_) => "parameter_ref",
            Op::Addrx(_) => "addrx",
            Op::Constx(_) => "constx",
            Op::ConstType { .. } => "const_type",
            Op::Convert(_) => "convert",
            Op::Reinterpret(_) => "reinterpret",
            Op::Uninit => "uninit",
            Op::WasmLocal(_) => "wasm_local",
            Op::WasmGlobal(_) => "wasm_global",
            Op::WasmStack(_) => "wasm_stack",
        }
    }
}

/// Why a decode fails.
#[derive(Clone, Copy, Debug, PartialEq, Eq)]
pub enum DErr {
    /// the operation needs more bytes than there are
    Eof,
    /// an unsigned LEB128 operand does not fit 64 bits (or 32 for WASM indices)
    BadUleb,
    /// a signed LEB128 operand does not fit 64 bits
    BadSleb,
    /// unknown opcode / unknown WASM location kind / piece size * 8 overflows
    Invalid,
    /// register number above 65535
    Register,
    /// a LEB128 operand longer than 10 bytes: acceptance is not fixed (C09), any error or
    /// nothing is compared
    Overlong,
}

struct Cur<'a> {
    b: &'a [u8],
    pos: usize,
    le: bool,
}

impl<'a> Cur<'a> {
    fn u8(&mut self) -> Result<u8, DErr> {
        let v = *self.b.get(self.pos).ok_or(DErr::Eof)?;
        self.pos += 1;
        Ok(v)
    }
    fn uint(&mut self, n: usize) -> Result<u64, DErr> {
        if self.b.len() - self.pos < n {
            return Err(DErr::Eof);
        }
        let v = get_uint(&self.b[self.pos..], self.le, n);
        self.pos += n;
        Ok(v)
    }
    fn sint(&mut self, n: usize) -> Result<i64, DErr> {
        let v = self.uint(n)?;
        let sh = 64 - 8 * n as u32;
        Ok(((v << sh) as i64) >> sh)
    }
    fn uleb(&mut self) -> Result<u64, DErr> {
        let mut v: u128 = 0;
        for i in 0..10usize {
            let x = self.u8()?;
            v |= ((x & 0x7f) as u128) << (7 * i);
            if x & 0x80 == 0 {
                return if v > u64::MAX as u128 { Err(DErr::BadUleb) } else { Ok(v as u64) };
            }
        }
        // ten continuation bytes
        if v > u64::MAX as u128 {
            Err(DErr::BadUleb)
        } else {
            Err(DErr::Overlong)
        }
    }
    fn sleb(&mut self) -> Result<i64, DErr> {
        let mut v: i128 = 0;
        for i in 0..10usize {
            let x = self.u8()?;
            v |= ((x & 0x7f) as i128) << (7 * i);
            if x & 0x80 == 0 {
                if x & 0x40 != 0 {
                    v -= 1i128 << (7 * (i + 1));
                }
                return if v < i64::MIN as i128 || v > i64::MAX as i128 { Err(DErr::BadSleb) } else { Ok(v as i64) };
            }
        }
        // ten continuation bytes: fits only if the tenth carries pure sign bits
        let tenth = self.b[self.pos - 1] & 0x7f;
        if tenth != 0 && tenth != 0x7f {
            Err(DErr::BadSleb)
        } else {
            Err(DErr::Overlong)
        }
    }
    fn uleb32(&mut self) -> Result<u32, DErr> {
        let v = self.uleb()?;
        if v > u32::MAX as u64 {
            Err(DErr::BadUleb)
        } else {
            Ok(v as u32)
        }
    }
    fn reg(&mut self) -> Result<u16, DErr> {
        let v = self.uleb()?;
        if v > u16::MAX as u64 {
            Err(DErr::Register)
        } else {
            Ok(v as u16)
        }
    }
    fn block(&mut self, n: u64) -> Result<Vec<u8>, DErr> {
        if ((self.b.len() - self.pos) as u64) < n {
            return Err(DErr::Eof);
        }
        let n = n as usize;
        let v = self.b[self.pos..self.pos + n].to_vec();
        self.pos += n;
        Ok(v)
    }
}

/// Decode the operation at the start of `b`: `(operation, bytes consumed)`.
pub fn decode(b: &[u8], enc: Enc) -> Result<(Op, usize), DErr> {
    let mut c = Cur { b, pos: 0, le: enc.le };
    let a = enc.addr as usize;
    let w = enc.word() as usize;
    let opc = c.u8()?;
    let op = match opc {
        0x03 => Op::Addr(c.uint(a)?),
        0x06 => Op::Deref { size: enc.addr, space: false, base_type: 0 },
        0x08 => Op::ConstU(c.uint(1)?),
        0x09 => Op::ConstS(c.sint(1)?),
        0x0a => Op::ConstU(c.uint(2)?),
        0x0b => Op::ConstS(c.sint(2)?),
        0x0c => Op::ConstU(c.uint(4)?),
        0x0d => Op::ConstS(c.sint(4)?),
        0x0e => Op::ConstU(c.uint(8)?),
        0x0f => Op::ConstS(c.sint(8)?),
        0x10 => Op::ConstU(c.uleb()?),
        0x11 => Op::ConstS(c.sleb()?),
        0x12 => Op::Pick(0),
        0x13 => Op::Drop,
        0x14 => Op::Pick(1),
        0x15 => Op::Pick(c.u8()?),
        0x16 => Op::Swap,
        0x17 => Op::Rot,
        0x18 => Op::Deref { size: enc.addr, space: true, base_type: 0 },
        0x19 => Op::Abs,
        0x1a => Op::And,
        0x1b => Op::Div,
        0x1c => Op::Minus,
        0x1d => Op::Mod,
        0x1e => Op::Mul,
        0x1f => Op::Neg,
        0x20 => Op::Not,
        0x21 => Op::Or,
        0x22 => Op::Plus,
        0x23 => Op::PlusUconst(c.uleb()?),
        0x24 => Op::Shl,
        0x25 => Op::Shr,
        0x26 => Op::Shra,
        0x27 => Op::Xor,
        0x28 => Op::Bra(c.sint(2)? as i16),
        0x29 => Op::Eq,
        0x2a => Op::Ge,
        0x2b => Op::Gt,
        0x2c => Op::Le,
        0x2d => Op::Lt,
        0x2e => Op::Ne,
        0x2f => Op::Skip(c.sint(2)? as i16),
        0x30..=0x4f => Op::ConstU((opc - 0x30) as u64),
        0x50..=0x6f => Op::Reg((opc - 0x50) as u16),
        0x70..=0x8f => Op::Breg { reg: (opc - 0x70) as u16, off: c.sleb()?, base_type: 0 },
        0x90 => Op::Reg(c.reg()?),
        0x91 => Op::Fbreg(c.sleb()?),
        0x92 => {
            let reg = c.reg()?;
            Op::Breg { reg, off: c.sleb()?, base_type: 0 }
        }
        0x93 => {
            let bytes = c.uleb()?;
            Op::Piece { bits: bytes.checked_mul(8).ok_or(DErr::Invalid)?, off: None }
        }
        0x94 => Op::Deref { size: c.u8()?, space: false, base_type: 0 },
        0x95 => Op::Deref { size: c.u8()?, space: true, base_type: 0 },
        0x96 => Op::Nop,
        0x97 => Op::PushObjectAddress,
        0x98 => Op::Call(Ref::Unit(c.uint(2)?)),
        0x99 => Op::Call(Ref::Unit(c.uint(4)?)),
        0x9a => Op::Call(Ref::Info(c.uint(w)?)),
        0x9b | 0xe0 => Op::Tls,
        0x9c => Op::Cfa,
        0x9d => {
            let bits = c.uleb()?;
            Op::Piece { bits, off: Some(c.uleb()?) }
        }
        0x9e => {
            let n = c.uleb()?;
            Op::ImplicitValue(c.block(n)?)
        }
        0x9f => Op::StackValue,
        0xa0 | 0xf2 => {
            // DWARF 2 producers (GNU extension) used an address-sized reference
            let value = if enc.version == 2 { c.uint(a)? } else { c.uint(w)? };
            Op::ImplicitPointer { value, off: c.sleb()? }
        }
        0xa1 | 0xfb => Op::Addrx(c.uleb()?),
        0xa2 | 0xfc => Op::Constx(c.uleb()?),
        0xa3 | 0xf3 => {
            let n = c.uleb()?;
            Op::EntryValue(c.block(n)?)
        }
        0xa4 | 0xf4 => {
            let base_type = c.uleb()?;
            let n = c.u8()?;
            Op::ConstType { base_type, data: c.block(n as u64)? }
        }
        0xa5 | 0xf5 => {
            let reg = c.reg()?;
            Op::Breg { reg, off: 0, base_type: c.uleb()? }
        }
        0xa6 | 0xf6 => {
            let size = c.u8()?;
            Op::Deref { size, space: false, base_type: c.uleb()? }
        }
        0xa7 => {
            let size = c.u8()?;
            Op::Deref { size, space: true, base_type: c.uleb()? }
        }
        0xa8 | 0xf7 => Op::Convert(c.uleb()?),
        0xa9 | 0xf9 => Op::Reinterpret(c.uleb()?),
        0xf0 => Op::Uninit,
        0xfa => Op::ParameterRef(c.uint(4)?),
        0xfd => Op::VariableValue(c.uint(w)?),
        0xed => match c.u8()? {
            0 => Op::WasmLocal(c.uleb32()?),
            1 => Op::WasmGlobal(c.uleb32()?),
            2 => Op::WasmStack(c.uleb32()?),
            3 => Op::WasmGlobal(c.uint(4)? as u32),
            _ => return Err(DErr::Invalid),
        },
        _ => return Err(DErr::Invalid),
    };
    Ok((op, c.pos))
}

// ------------------------------------------------------------------ requests / answers

#[derive(Clone, Debug, PartialEq, Eq)]
pub enum Req {
    Memory { address: u64, size: u8, space: Option<u64>, base_type: u64 },
    Register { register: u16, base_type: u64 },
    FrameBase,
    Tls(u64),
    Cfa,
    AtLocation(Ref),
    EntryValue(Vec<u8>),
    ParameterRef(u64),
    RelocatedAddress(u64),
    IndexedAddress { index: u64, relocate: bool },
    BaseType(u64),
    WasmLocal(u32),
    WasmGlobal(u32),
    WasmStack(u32),
}

impl Req {
    pub fn kind(&self) -> &'static str {
        match self {
            Req::Memory { .. } => "RequiresMemory",
            Req::Register { .. } => "RequiresRegister",
            Req::FrameBase => "RequiresFrameBase",
            Req::Tls(_) => "RequiresTls",
            Req::Cfa => "RequiresCallFrameCfa",
            Req::AtLocation(_) => "RequiresAtLocation",
            Req::EntryValue(_) => "RequiresEntryValue",
            Req::ParameterRef(_) => "RequiresParameterRef",
            Req::RelocatedAddress(_) => "RequiresRelocatedAddress",
            Req::IndexedAddress { .. } => "RequiresIndexedAddress",
            Req::BaseType(_) => "RequiresBaseType",
            Req::WasmLocal(_) => "RequiresWasmLocal",
            Req::WasmGlobal(_) => "RequiresWasmGlobal",
            Req::WasmStack(_) => "RequiresWasmStack",
        }
    }
}

/// An answer to a request.  `Value` for memory / register / entry value / WASM, `Word` for
/// frame base / TLS / CFA / parameter ref / relocated and indexed addresses, `Expr(i)` =
/// the i-th expression of the answer pool for `AtLocation`, `Type` for `BaseType`.
#[derive(Clone, Copy, Debug, PartialEq, Eq)]
pub enum Ans {
    /// raw value: for Generic the bits may exceed the address width (reduced by the machine)
    Value(Ty, u64),
    Word(u64),
    Expr(usize),
    Type(Ty),
}

#[derive(Clone, Debug, PartialEq, Eq)]
pub enum Loc {
    Empty,
    Register(u16),
    Address(u64),
    Value(Val),
    Bytes(Vec<u8>),
    ImplicitPointer { value: u64, off: i64 },
}

#[derive(Clone, Debug, PartialEq, Eq)]
pub struct MPiece {
    pub size_in_bits: Option<u64>,
    pub bit_offset: Option<u64>,
    pub location: Loc,
}

/// Storage capacities (None = unlimited heap storage).
#[derive(Clone, Copy, Debug, PartialEq, Eq)]
pub struct Caps {
    pub stack: usize,
    pub expr: usize,
    pub result: usize,
}

#[derive(Clone, Debug)]
pub struct Config {
    pub enc: Enc,
    pub initial: Option<u64>,
    pub object_address: Option<u64>,
    /// `set_max_iterations`
    pub max_iterations: Option<u32>,
    pub caps: Option<Caps>,
    /// the model itself gives up (End::Budget) after this many iterations
    pub budget: u64,
}

#[derive(Clone, Debug, PartialEq, Eq)]
pub struct MErr {
    /// every error kind that applies; `kinds[0]` is what the pinned tree reports
    pub kinds: Vec<&'static str>,
}

#[derive(Clone, Debug, PartialEq, Eq)]
pub enum End {
    Complete { pieces: Vec<MPiece>, value: Option<Val> },
    Error(MErr),
    /// iteration limit exceeded (`TooManyIterations`)
    TooMany,
    /// the model's own budget was exhausted (no limit set): the program needs more than
    /// `budget` iterations
    Budget,
}

#[derive(Clone, Debug)]
pub struct Outcome {
    pub requests: Vec<(Req, Ans)>,
    pub end: End,
    /// operations executed (each counted before it is decoded)
    pub iterations: u64,
    /// operation decodes attempted (iterations that got as far as decoding + the extra decode
    /// after a location-completing operation)
    pub decodes: u64,
    /// an undefined / pinned-only behaviour influenced the outcome
    pub tainted: Option<&'static str>,
    /// catalogue of operations executed (names), for coverage
    pub executed: Vec<&'static str>,
    /// peak value-stack depth
    pub peak_stack: usize,
    /// the run exercised a known, reported defect of the pinned tree (see REPORT.md):
    /// mismatches of such a run are counted, not reported
    pub known: Option<&'static str>,
    /// which capacity a StackFull error came from: "values" / "calls" / "pieces"
    pub full_cause: Option<&'static str>,
    /// backward branches taken / returns from non-empty callees (coverage only)
    pub backward: u64,
    pub returns: u64,
}

pub fn derr_kinds(e: DErr) -> Vec<&'static str> {
    match e {
        DErr::Eof => vec!["UnexpectedEof"],
        DErr::BadUleb => vec!["BadUnsignedLeb128"],
        DErr::BadSleb => vec!["BadSignedLeb128"],
        DErr::Invalid => vec!["InvalidExpression"],
        DErr::Register => vec!["UnsupportedRegister"],
        DErr::Overlong => vec!["BadUnsignedLeb128", "BadSignedLeb128", "UnexpectedEof", "<overlong>"],
    }
}

struct Frame {
    code: usize,
    pc: usize,
}

struct Machine<'a> {
    cfg: &'a Config,
    addr: u8,
    codes: Vec<&'a [u8]>,
    cur: Frame,
    frames: Vec<Frame>,
    stack: Vec<Val>,
    pieces: Vec<MPiece>,
    tainted: Option<&'static str>,
    peak: usize,
    known: Option<&'static str>,
    /// which capacity a StackFull came from: "values" / "calls" / "pieces"
    full_cause: Option<&'static str>,
    backward: u64,
    returns: u64,
}

type R<T> = Result<T, MErr>;

fn err(kinds: &[&'static str]) -> MErr {
    MErr { kinds: kinds.to_vec() }
}

const E_STACK: &str = "NotEnoughStackItems";
const E_FULL: &str = "StackFull";
const E_TYPE: &str = "TypeMismatch";
const E_INTEGRAL: &str = "IntegralTypeRequired";
const E_UNSUP: &str = "UnsupportedTypeOperation";
const E_SHIFT: &str = "InvalidShiftExpression";
const E_DIV0: &str = "DivisionByZero";

#[derive(Clone, Copy, PartialEq)]
enum Bin {
    Plus,
    Minus,
    Mul,
    Div,
    Mod,
    And,
    Or,
    Xor,
    Shl,
    Shr,
    Shra,
    Eq,
    Ge,
    Gt,
    Le,
    Lt,
    Ne,
}

impl<'a> Machine<'a> {
    fn taint(&mut self, why: &'static str) {
        if self.tainted.is_none() {
            self.tainted = Some(why);
        }
    }
    fn push(&mut self, v: Val) -> R<()> {
        if let Some(c) = self.cfg.caps {
            if self.stack.len() >= c.stack {
                self.full_cause = Some("values");
                return Err(err(&[E_FULL]));
            }
        }
        self.stack.push(v);
        if self.stack.len() > self.peak {
            self.peak = self.stack.len();
        }
        Ok(())
    }
    fn pop(&mut self) -> R<Val> {
        self.stack.pop().ok_or_else(|| err(&[E_STACK]))
    }
    /// Pop an integer used as an address / index: floats are not integral.
    fn pop_int(&mut self) -> R<u64> {
        let v = self.pop()?;
        if v.ty.is_float() {
            return Err(err(&[E_INTEGRAL]));
        }
        // signed typed values are sign-extended to 64 bits (pinned), generic values are
        // address-sized
        if v.ty.is_signed_int() && v.signed(self.addr) < 0 {
            self.taint("negative typed value used as an address");
        }
        Ok(if v.ty.is_signed_int() { v.signed(self.addr) as u64 } else { v.bits })
    }
    /// Pop a branch condition: true iff non-zero.
    fn pop_cond(&mut self) -> R<bool> {
        let v = self.pop()?;
        if v.ty.is_float() {
            return Err(err(&[E_INTEGRAL]));
        }
        Ok(v.bits != 0)
    }
    fn push_piece(&mut self, p: MPiece) -> R<()> {
        if let Some(c) = self.cfg.caps {
            if self.pieces.len() >= c.result {
                self.full_cause = Some("pieces");
                return Err(err(&[E_FULL]));
            }
        }
        self.pieces.push(p);
        Ok(())
    }
    /// Is the (outermost) expression finished?  Returning from finished callees on the way.
    fn at_end(&mut self) -> bool {
        while self.cur.pc >= self.codes[self.cur.code].len() {
            match self.frames.pop() {
                Some(f) => {
                    self.cur = f;
                    self.returns += 1;
                }
                None => return true,
            }
        }
        false
    }
    fn branch(&mut self, rel: i16) -> R<()> {
        let len = self.codes[self.cur.code].len() as i128;
        let target = self.cur.pc as i128 + rel as i128;
        if target < 0 || target > len {
            return Err(err(&["BadBranchTarget"]));
        }
        if (target as usize) < self.cur.pc {
            self.backward += 1;
        }
        self.cur.pc = target as usize;
        Ok(())
    }

    fn float_bin(&mut self, op: Bin, l: Val, r: Val) -> R<Val> {
        // same float type on both sides
        macro_rules! go {
            ($a:expr, $b:expr, $mk:expr) => {{
                let (a, b) = ($a, $b);
                match op {
                    Bin::Plus => Ok($mk(a + b)),
                    Bin::Minus => Ok($mk(a - b)),
                    Bin::Mul => Ok($mk(a * b)),
                    Bin::Div => {
                        if b == 0.0 {
                            self.taint("float division by zero");
                        }
                        Ok($mk(a / b))
                    }
                    Bin::Eq => Ok(Val::generic((a == b) as u64, self.addr)),
                    Bin::Ne => Ok(Val::generic((a != b) as u64, self.addr)),
                    Bin::Ge => Ok(Val::generic((a >= b) as u64, self.addr)),
                    Bin::Gt => Ok(Val::generic((a > b) as u64, self.addr)),
                    Bin::Le => Ok(Val::generic((a <= b) as u64, self.addr)),
                    Bin::Lt => Ok(Val::generic((a < b) as u64, self.addr)),
                    _ => Err(err(&[E_INTEGRAL])),
                }
            }};
        }
        if l.ty == Ty::F32 {
            go!(l.f32(), r.f32(), Val::from_f32)
        } else {
            go!(l.f64(), r.f64(), Val::from_f64)
        }
    }

    fn binary(&mut self, op: Bin) -> R<()> {
        if self.stack.len() < 2 {
            // (the pinned tree pops what is there first; the stack is not observable after an error)
            self.stack.clear();
            return Err(err(&[E_STACK]));
        }
        let r = self.pop()?;
        let l = self.pop()?;
        let a = self.addr;
        let is_shift = matches!(op, Bin::Shl | Bin::Shr | Bin::Shra);
        let mut errs: Vec<&'static str> = vec![];
        if is_shift {
            // count: any integral type; negative or float counts are invalid
            let bad_count = r.ty.is_float() || (r.ty.is_signed_int() && r.signed(a) < 0);
            if bad_count {
                errs.push(E_SHIFT);
            }
            if l.ty.is_float() {
                errs.push(E_INTEGRAL);
            } else if (op == Bin::Shr && l.ty.is_signed_int()) || (op == Bin::Shra && l.ty.is_unsigned_typed()) {
                errs.push(E_UNSUP);
            }
            if !errs.is_empty() {
                return Err(MErr { kinds: errs });
            }
            let w = l.ty.bits(a);
            let count = r.bits as u128; // non-negative
            let res = match op {
                Bin::Shl => {
                    if count >= w as u128 {
                        0
                    } else {
                        l.unsigned() << count as u32
                    }
                }
                Bin::Shr => {
                    if count >= w as u128 {
                        0
                    } else {
                        l.unsigned() >> count as u32
                    }
                }
                _ => {
                    let s = l.signed(a);
                    if count >= w as u128 {
                        if s < 0 {
                            -1
                        } else {
                            0
                        }
                    } else {
                        s >> count as u32
                    }
                }
            };
            return self.push(wrap(l.ty, res, a));
        }
        let integral_only = matches!(op, Bin::Mod | Bin::And | Bin::Or | Bin::Xor);
        let divides = matches!(op, Bin::Div | Bin::Mod);
        let r_zero_int = !r.ty.is_float() && r.bits == 0;
        if divides && r_zero_int {
            errs.push(E_DIV0);
        }
        if l.ty != r.ty {
            errs.push(E_TYPE);
            if integral_only && (l.ty.is_float() || r.ty.is_float()) {
                errs.push(E_INTEGRAL);
            }
        } else if integral_only && l.ty.is_float() {
            errs.push(E_INTEGRAL);
        }
        if !errs.is_empty() {
            return Err(MErr { kinds: errs });
        }
        if l.ty.is_float() {
            let v = self.float_bin(op, l, r)?;
            return self.push(v);
        }
        let ty = l.ty;
        // signedness table: generic is signed for div and the comparisons, unsigned for mod
        let generic_signed = matches!(op, Bin::Div | Bin::Eq | Bin::Ge | Bin::Gt | Bin::Le | Bin::Lt | Bin::Ne);
        let rd = |v: Val| -> i128 {
            if ty == Ty::Generic {
                if generic_signed {
                    v.signed(a)
                } else {
                    v.unsigned()
                }
            } else {
                v.int_value(a)
            }
        };
        let (x, y) = (rd(l), rd(r));
        let cmp = |b: bool| Val::generic(b as u64, a);
        let v = match op {
            Bin::Plus => wrap(ty, x + y, a),
            Bin::Minus => wrap(ty, x - y, a),
            Bin::Mul => wrap(ty, x.wrapping_mul(y), a),
            // truncating division; minimum / -1 wraps in the width
            Bin::Div => wrap(ty, x / y, a),
            // remainder with the sign of the dividend (typed signed), unsigned for generic
            Bin::Mod => wrap(ty, x % y, a),
            Bin::And => wrap(ty, x & y, a),
            Bin::Or => wrap(ty, x | y, a),
            Bin::Xor => wrap(ty, x ^ y, a),
            Bin::Eq => cmp(x == y),
            Bin::Ne => cmp(x != y),
            Bin::Ge => cmp(x >= y),
            Bin::Gt => cmp(x > y),
            Bin::Le => cmp(x <= y),
            Bin::Lt => cmp(x < y),
            Bin::Shl | Bin::Shr | Bin::Shra => unreachable!(),
        };
        self.push(v)
    }

    /// Integer constant `c` (unsigned 64-bit) converted to the type of an operand.
    fn const_in_type(&self, ty: Ty, c: u64) -> Val {
        match ty {
            Ty::F32 => Val::from_f32(c as f32),
            Ty::F64 => Val::from_f64(c as f64),
            t => Val::new(t, c, self.addr),
        }
    }

    fn add_same(&mut self, l: Val, r: Val) -> Val {
        if l.ty == Ty::F32 {
            Val::from_f32(l.f32() + r.f32())
        } else if l.ty == Ty::F64 {
            Val::from_f64(l.f64() + r.f64())
        } else {
            wrap(l.ty, l.unsigned() + r.unsigned(), self.addr)
        }
    }

    fn convert(&mut self, v: Val, to: Ty) -> Val {
        let a = self.addr;
        if v.ty.is_float() {
            let x: f64 = if v.ty == Ty::F32 { v.f32() as f64 } else { v.f64() };
            match to {
                Ty::F32 => {
                    if v.ty == Ty::F32 {
                        v
                    } else {
                        Val::from_f32(x as f32)
                    }
                }
                Ty::F64 => Val::from_f64(x),
                t => {
                    // float -> integer: truncation toward zero; undefined if it does not fit
                    let w = t.bits(a);
                    let (lo, hi): (f64, f64) = if t.is_signed_int() {
                        (-(2f64.powi(w as i32 - 1)), 2f64.powi(w as i32 - 1))
                    } else {
                        (0.0, 2f64.powi(w as i32))
                    };
                    let tr = x.trunc();
                    if x.is_nan() || tr < lo || tr >= hi {
                        self.taint("float to integer conversion out of range");
                    }
                    // saturating cast (what Rust's `as` does), then reduced to the width
                    let i: i128 = if x.is_nan() {
                        0
                    } else if t.is_signed_int() {
                        let m = 1i128 << (w - 1);
                        (tr as i128).clamp(-m, m - 1)
                    } else if t == Ty::Generic {
                        // generic: the pinned tree converts to u64 and reduces
                        (tr as i128).clamp(0, u64::MAX as i128)
                    } else {
                        (tr as i128).clamp(0, width_mask(w) as i128)
                    };
                    wrap(t, i, a)
                }
            }
        } else {
            let x = v.int_value(a);
            match to {
                Ty::F32 => Val::from_f32(x as f32),
                Ty::F64 => Val::from_f64(x as f64),
                t => wrap(t, x, a),
            }
        }
    }
}

/// Parse `data` as a constant of type `ty` in byte order `le` (DW_OP_const_type).
fn parse_typed(ty: Ty, data: &[u8], le: bool, addr: u8) -> Result<(Val, bool), MErr> {
    if ty == Ty::Generic {
        return Err(err(&[E_UNSUP]));
    }
    let n = (ty.bits(addr) / 8) as usize;
    if data.len() < n {
        return Err(err(&["UnexpectedEof"]));
    }
    Ok((Val::new(ty, get_uint(data, le, n), addr), data.len() > n))
}

/// Run the reference machine.  `pool[i]` is the expression that `Ans::Expr(i)` stands for.
pub fn evaluate(code: &[u8], cfg: &Config, pool: &[Vec<u8>], ans: &mut dyn FnMut(usize, &Req) -> Ans) -> Outcome {
    let mut m = Machine {
        cfg,
        addr: cfg.enc.addr,
        codes: vec![code],
        cur: Frame { code: 0, pc: 0 },
        frames: vec![],
        stack: vec![],
        pieces: vec![],
        tainted: None,
        peak: 0,
        known: None,
        full_cause: None,
        backward: 0,
        returns: 0,
    };
    let mut out = Outcome { requests: vec![], end: End::Budget, iterations: 0, decodes: 0, tainted: None, executed: vec![], peak_stack: 0, known: None, full_cause: None, backward: 0, returns: 0 };
    let end = run(&mut m, &mut out, pool, ans);
    out.end = match end {
        Ok(e) => e,
        Err(e) => End::Error(e),
    };
    out.tainted = m.tainted;
    out.known = m.known;
    out.full_cause = m.full_cause;
    out.backward = m.backward;
    out.returns = m.returns;
    out.peak_stack = m.peak;
    out
}

fn run<'a>(m: &mut Machine<'a>, out: &mut Outcome, pool: &'a [Vec<u8>], ans: &mut dyn FnMut(usize, &Req) -> Ans) -> R<End> {
    let a = m.addr;
    let enc = m.cfg.enc;
    if let Some(v) = m.cfg.initial {
        m.push(Val::generic(v, a))?;
    }
    // true while the last executed operation was a request / call whose "trailing
    // non-piece operation" check the pinned tree skips
    loop {
        if m.at_end() {
            break;
        }
        out.iterations += 1;
        if let Some(max) = m.cfg.max_iterations {
            if out.iterations > max as u64 {
                return Ok(End::TooMany);
            }
        }
        if out.iterations > m.cfg.budget {
            return Ok(End::Budget);
        }
        out.decodes += 1;
        let code = m.codes[m.cur.code];
        let (op, n) = decode(&code[m.cur.pc..], enc).map_err(|e| MErr { kinds: derr_kinds(e) })?;
        m.cur.pc += n;
        if out.executed.len() < 4096 {
            out.executed.push(op.name());
        }
        // what kind of step was it
        enum Step {
            Plain,
            Piece,
            Location(Loc),
            Request(Req),
        }
        let step = match op {
            Op::ConstU(v) => {
                m.push(Val::generic(v, a))?;
                Step::Plain
            }
            Op::ConstS(v) => {
                m.push(Val::generic(v as u64, a))?;
                Step::Plain
            }
            Op::Pick(i) => {
                let len = m.stack.len();
                if i as usize >= len {
                    return Err(err(&[E_STACK]));
                }
                let v = m.stack[len - 1 - i as usize];
                m.push(v)?;
                Step::Plain
            }
            Op::Drop => {
                m.pop()?;
                Step::Plain
            }
            Op::Swap => {
                if m.stack.len() < 2 {
                    return Err(err(&[E_STACK]));
                }
                let len = m.stack.len();
                m.stack.swap(len - 1, len - 2);
                Step::Plain
            }
            Op::Rot => {
                // bottom -> top: x y z  becomes  z x y
                if m.stack.len() < 3 {
                    return Err(err(&[E_STACK]));
                }
                let z = m.stack.pop().unwrap();
                let y = m.stack.pop().unwrap();
                let x = m.stack.pop().unwrap();
                m.stack.push(z);
                m.stack.push(x);
                m.stack.push(y);
                Step::Plain
            }
            Op::Abs => {
                let v = m.pop()?;
                let r = match v.ty {
                    Ty::F32 => {
                        let f = v.f32();
                        if f.is_nan() || (f == 0.0 && f.is_sign_negative()) {
                            m.taint("abs of NaN / -0.0");
                        }
                        // pinned: negate when < 0
                        Val::from_f32(if f < 0.0 { -f } else { f })
                    }
                    Ty::F64 => {
                        let f = v.f64();
                        if f.is_nan() || (f == 0.0 && f.is_sign_negative()) {
                            m.taint("abs of NaN / -0.0");
                        }
                        Val::from_f64(if f < 0.0 { -f } else { f })
                    }
                    t if t.is_unsigned_typed() => v,
                    t => {
                        let s = v.signed(a);
                        if s == -(1i128 << (t.bits(a) - 1)) {
                            m.taint("abs of the minimum value");
                        }
                        wrap(t, s.abs(), a)
                    }
                };
                m.push(r)?;
                Step::Plain
            }
            Op::Neg => {
                let v = m.pop()?;
                let r = match v.ty {
                    Ty::F32 => Val::from_f32(-v.f32()),
                    Ty::F64 => Val::from_f64(-v.f64()),
                    t if t.is_unsigned_typed() => return Err(err(&[E_UNSUP])),
                    t => {
                        let s = v.signed(a);
                        if s == -(1i128 << (t.bits(a) - 1)) {
                            m.taint("neg of the minimum value");
                        }
                        wrap(t, -s, a)
                    }
                };
                m.push(r)?;
                Step::Plain
            }
            Op::Not => {
                let v = m.pop()?;
                if v.ty.is_float() {
                    return Err(err(&[E_INTEGRAL]));
                }
                m.push(wrap(v.ty, !(v.bits as i128), a))?;
                Step::Plain
            }
            Op::PlusUconst(c) => {
                let v = m.pop()?;
                let k = m.const_in_type(v.ty, c);
                let r = m.add_same(v, k);
                m.push(r)?;
                Step::Plain
            }
            Op::Plus => {
                m.binary(Bin::Plus)?;
                Step::Plain
            }
            Op::Minus => {
                m.binary(Bin::Minus)?;
                Step::Plain
            }
            Op::Mul => {
                m.binary(Bin::Mul)?;
                Step::Plain
            }
            Op::Div => {
                m.binary(Bin::Div)?;
                Step::Plain
            }
            Op::Mod => {
                m.binary(Bin::Mod)?;
                Step::Plain
            }
            Op::And => {
                m.binary(Bin::And)?;
                Step::Plain
            }
            Op::Or => {
                m.binary(Bin::Or)?;
                Step::Plain
            }
            Op::Xor => {
                m.binary(Bin::Xor)?;
                Step::Plain
            }
            Op::Shl => {
                m.binary(Bin::Shl)?;
                Step::Plain
            }
            Op::Shr => {
                m.binary(Bin::Shr)?;
                Step::Plain
            }
            Op::Shra => {
                m.binary(Bin::Shra)?;
                Step::Plain
            }
            Op::Eq => {
                m.binary(Bin::Eq)?;
                Step::Plain
            }
            Op::Ge => {
                m.binary(Bin::Ge)?;
                Step::Plain
            }
            Op::Gt => {
                m.binary(Bin::Gt)?;
                Step::Plain
            }
            Op::Le => {
                m.binary(Bin::Le)?;
                Step::Plain
            }
            Op::Lt => {
                m.binary(Bin::Lt)?;
                Step::Plain
            }
            Op::Ne => {
                m.binary(Bin::Ne)?;
                Step::Plain
            }
            Op::Bra(rel) => {
                if m.pop_cond()? {
                    m.branch(rel)?;
                }
                Step::Plain
            }
            Op::Skip(rel) => {
                m.branch(rel)?;
                Step::Plain
            }
            Op::Nop => Step::Plain,
            Op::PushObjectAddress => {
                match m.cfg.object_address {
                    Some(v) => m.push(Val::generic(v, a))?,
                    None => return Err(err(&["InvalidPushObjectAddress"])),
                }
                Step::Plain
            }
            Op::VariableValue(_) | Op::Uninit => return Err(err(&["UnsupportedEvaluation"])),
            Op::Piece { bits, off } => {
                let location = if m.stack.is_empty() { Loc::Empty } else { Loc::Address(m.pop_int()?) };
                m.push_piece(MPiece { size_in_bits: Some(bits), bit_offset: off, location })?;
                Step::Piece
            }
            Op::Reg(r) => Step::Location(Loc::Register(r)),
            Op::ImplicitValue(ref d) => Step::Location(Loc::Bytes(d.clone())),
            Op::StackValue => Step::Location(Loc::Value(m.pop()?)),
            Op::ImplicitPointer { value, off } => Step::Location(Loc::ImplicitPointer { value, off }),
            Op::Deref { size, space, base_type } => {
                let mut errs: Vec<&'static str> = vec![];
                if size > a {
                    errs.push("InvalidDerefSize");
                }
                let need = if space { 2 } else { 1 };
                if m.stack.len() < need {
                    // xderef with only a float address on the stack: both errors apply (the
                    // pinned tree looks at the address first)
                    if m.stack.last().map(|v| v.ty.is_float()).unwrap_or(false) {
                        errs.push(E_INTEGRAL);
                    }
                    errs.push(E_STACK);
                } else if (0..need).any(|i| m.stack[m.stack.len() - 1 - i].ty.is_float()) {
                    errs.push(E_INTEGRAL);
                }
                if !errs.is_empty() {
                    return Err(MErr { kinds: errs });
                }
                let address = m.pop_int()?;
                let space = if space { Some(m.pop_int()?) } else { None };
                Step::Request(Req::Memory { address, size, space, base_type })
            }
            Op::Breg { reg, base_type, .. } => Step::Request(Req::Register { register: reg, base_type }),
            Op::Fbreg(_) => Step::Request(Req::FrameBase),
            Op::Tls => Step::Request(Req::Tls(m.pop_int()?)),
            Op::Cfa => Step::Request(Req::Cfa),
            Op::Call(r) => Step::Request(Req::AtLocation(r)),
            Op::EntryValue(ref e) => Step::Request(Req::EntryValue(e.clone())),
            Op::ParameterRef(o) => Step::Request(Req::ParameterRef(o)),
            Op::Addr(x) => Step::Request(Req::RelocatedAddress(x)),
            Op::Addrx(i) => Step::Request(Req::IndexedAddress { index: i, relocate: true }),
            Op::Constx(i) => Step::Request(Req::IndexedAddress { index: i, relocate: false }),
            Op::ConstType { base_type, .. } | Op::Convert(base_type) | Op::Reinterpret(base_type) => Step::Request(Req::BaseType(base_type)),
            Op::WasmLocal(i) => Step::Request(Req::WasmLocal(i)),
            Op::WasmGlobal(i) => Step::Request(Req::WasmGlobal(i)),
            Op::WasmStack(i) => Step::Request(Req::WasmStack(i)),
        };
        match step {
            Step::Piece => {}
            Step::Plain => {
                if m.at_end() && !m.pieces.is_empty() {
                    return Err(err(&["InvalidPiece"]));
                }
            }
            Step::Location(location) => {
                if m.at_end() {
                    if !m.pieces.is_empty() {
                        return Err(err(&["InvalidPiece"]));
                    }
                    m.push_piece(MPiece { size_in_bits: None, bit_offset: None, location })?;
                } else {
                    // the next operation must be a piece; it is consumed together with the
                    // location (the "+1 decode", not an iteration)
                    out.decodes += 1;
                    let code = m.codes[m.cur.code];
                    let (next, n) = decode(&code[m.cur.pc..], enc).map_err(|e| MErr { kinds: derr_kinds(e) })?;
                    m.cur.pc += n;
                    match next {
                        Op::Piece { bits, off } => m.push_piece(MPiece { size_in_bits: Some(bits), bit_offset: off, location })?,
                        _ => return Err(err(&["InvalidExpressionTerminator"])),
                    }
                }
            }
            Step::Request(req) => {
                let idx = out.requests.len();
                let answer = ans(idx, &req);
                out.requests.push((req.clone(), answer));
                // apply the answer
                let bad_answer = || err(&["<answer kind does not match the request>"]);
                match (&req, &op) {
                    (Req::Memory { .. }, _) | (Req::EntryValue(_), _) | (Req::WasmLocal(_), _) | (Req::WasmGlobal(_), _) | (Req::WasmStack(_), _) => {
                        let Ans::Value(t, raw) = answer else { return Err(bad_answer()) };
                        m.push(Val::new(t, raw, a))?;
                    }
                    (Req::Register { .. }, Op::Breg { off, .. }) => {
                        let Ans::Value(t, raw) = answer else { return Err(bad_answer()) };
                        let v = Val::new(t, raw, a);
                        // answer + offset in the answer's type
                        let k = if t.is_float() {
                            if *off < 0 {
                                m.taint("float register answer with a negative offset");
                            }
                            m.const_in_type(t, *off as u64)
                        } else {
                            Val::new(t, *off as u64, a)
                        };
                        let r = m.add_same(v, k);
                        m.push(r)?;
                    }
                    (Req::FrameBase, Op::Fbreg(off)) => {
                        let Ans::Word(w) = answer else { return Err(bad_answer()) };
                        m.push(Val::generic(w.wrapping_add(*off as u64), a))?;
                    }
                    (Req::Tls(_), _) | (Req::Cfa, _) | (Req::ParameterRef(_), _) | (Req::RelocatedAddress(_), _) | (Req::IndexedAddress { .. }, _) => {
                        let Ans::Word(w) = answer else { return Err(bad_answer()) };
                        m.push(Val::generic(w, a))?;
                    }
                    (Req::AtLocation(_), _) => {
                        let Ans::Expr(i) = answer else { return Err(bad_answer()) };
                        let Some(e) = pool.get(i) else { return Err(bad_answer()) };
                        if !e.is_empty() {
                            if let Some(c) = m.cfg.caps {
                                if m.frames.len() >= c.expr {
                                    m.full_cause = Some("calls");
                                    return Err(err(&[E_FULL]));
                                }
                            }
                            m.codes.push(&e[..]);
                            let callee = Frame { code: m.codes.len() - 1, pc: 0 };
                            let caller = std::mem::replace(&mut m.cur, callee);
                            m.frames.push(caller);
                        }
                    }
                    (Req::BaseType(_), Op::ConstType { data, .. }) => {
                        let Ans::Type(t) = answer else { return Err(bad_answer()) };
                        let (v, longer) = parse_typed(t, data, enc.le, a)?;
                        if longer {
                            m.taint("const_type with more data than the type needs");
                        }
                        m.push(v)?;
                    }
                    (Req::BaseType(_), Op::Convert(_)) => {
                        let Ans::Type(t) = answer else { return Err(bad_answer()) };
                        let v = m.pop()?;
                        let r = m.convert(v, t);
                        m.push(r)?;
                    }
                    (Req::BaseType(_), Op::Reinterpret(_)) => {
                        let Ans::Type(t) = answer else { return Err(bad_answer()) };
                        let v = m.pop()?;
                        if v.ty.bits(a) != t.bits(a) {
                            return Err(err(&[E_TYPE]));
                        }
                        m.push(Val { ty: t, bits: v.bits })?;
                    }
                    _ => return Err(bad_answer()),
                }
                // The pinned tree does not apply the "trailing non-piece operation after
                // pieces" rule (InvalidPiece) to operations that end in a request.
                if !m.pieces.is_empty() {
                    let mut probe_end = m.cur.pc >= m.codes[m.cur.code].len();
                    if probe_end {
                        // would the whole expression be finished?
                        probe_end = m.frames.iter().all(|f| f.pc >= m.codes[f.code].len());
                    }
                    if probe_end {
                        m.taint("composite location ends with a non-piece request operation");
                    }
                }
            }
        }
    }
    // end of the outermost expression
    if m.pieces.is_empty() {
        let v = m.pop()?;
        if v.ty.is_float() {
            return Err(err(&[E_INTEGRAL]));
        }
        if v.ty.is_signed_int() && v.signed(a) < 0 {
            m.taint("negative typed value used as an address");
        }
        let address = if v.ty.is_signed_int() { v.signed(a) as u64 } else { v.bits };
        m.push_piece(MPiece { size_in_bits: None, bit_offset: None, location: Loc::Address(address) })?;
        Ok(End::Complete { pieces: std::mem::take(&mut m.pieces), value: Some(v) })
    } else {
        Ok(End::Complete { pieces: std::mem::take(&mut m.pieces), value: None })
    }
}

/// Sequential decode of a whole expression (what an operation iterator yields): the
/// operations with their offsets, and the error that stops it, if any.
pub fn decode_all(code: &[u8], enc: Enc) -> (Vec<(usize, Op)>, Option<DErr>) {
    let mut out = vec![];
    let mut pc = 0usize;
    while pc < code.len() {
        match decode(&code[pc..], enc) {
            Ok((op, n)) => {
                out.push((pc, op));
                pc += n;
            }
            Err(e) => return (out, Some(e)),
        }
    }
    (out, None)
}

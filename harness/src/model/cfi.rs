//! Reference model for call-frame information (DWARF 5 §6.4, LSB `.eh_frame` / `.eh_frame_hdr`),
//! written from the standard and DESIGN.md Appendix A.5 — independent of gimli's code.
//!
//! # Public API (used by C05, C06; meant for reuse by C14 and C20)
//!
//! Pointer encodings (`DW_EH_PE_*`), all 256 encoding bytes:
//! * [`pe_is_valid`]`(enc)` — is the byte a known encoding (0xff = omit is valid).
//! * [`pe_read_value`]`(enc, bytes, le, addr_size)` — the raw value of the *format* nibble
//!   (sign-extended to u64 for signed formats) and the number of bytes consumed.
//! * [`pe_decode`]`(enc, bytes, le, pos, bases, addr_size)` — full pointer decode:
//!   validity, omit, base selection (pcrel base = section base + `pos`), value, wrap to the
//!   address size, indirect flag.  Errors are [`PeErr`].
//! * [`Bases`] — the optional section / text / data / function bases of one section.
//!
//! Row interpreter with unlimited (or configurable) storage:
//! * [`Insn`] — one decoded call-frame instruction (what the assembler encoded).
//! * [`Program`] — CIE initial instructions + FDE instructions + factors + address range.
//! * [`interpret`]`(program, limits)` → [`Table`] — the rows, the error that ends the table
//!   (if any, and whether it happens while running the CIE), and the storage [`Need`]
//!   (peak row-stack depth and peak number of distinct registers with a rule).
//! * [`Table::lookup`]`(addr)` — the row an address-driven evaluation must return.
//! * [`Limits`] — capacities; `None` = unlimited.
//!
//! Address lookup: [`scan_fdes`] — exhaustive scan over `(initial, end)` pairs.
//! `.eh_frame_hdr`: [`hdr_search`] — the table entry a sorted-table search must select.
//!
//! Adapters from gimli's result types to the model's (pure conversions, no logic):
//! [`row_from_gimli`], [`insn_from_gimli`], [`error_matches`], [`ptr_from_gimli`].
//!
//! # Choices where the standard is silent (pinned tree followed; listed as assumptions)
//! * `DW_CFA_advance_loc*` / `set_loc` inside a CIE's initial instructions are interpreted
//!   like in an FDE whose initial address is 0 (rows discarded, errors reported).
//! * `DW_CFA_GNU_args_size` is part of the row state (saved by remember_state).
//! * Rows remembered in the CIE stay on the stack for the FDE.
//! * Capacity: rows used = 1 + remembered + (1 if the CIE leaves >= 2 initial rules);
//!   rules used = distinct registers with an explicit rule in the working row.
//! * `DW_CFA_restore` of a register without an initial rule removes the rule.

use std::collections::BTreeMap;

pub type Reg = u16;

// ---------------------------------------------------------------- LEB128 (local, u128 maths)

/// Decode an unsigned LEB128 that must fit in u64. `None` = truncated or too large.
pub fn uleb_dec(b: &[u8]) -> Option<(u64, usize)> {
    let mut v: u128 = 0;
    for (i, &x) in b.iter().enumerate() {
        if i >= 10 {
            return None;
        }
        v |= ((x & 0x7f) as u128) << (7 * i as u32);
        if x & 0x80 == 0 {
            if v > u64::MAX as u128 {
                return None;
            }
            return Some((v as u64, i + 1));
        }
    }
    None
}

/// Decode a signed LEB128 that must fit in i64.
pub fn sleb_dec(b: &[u8]) -> Option<(i64, usize)> {
    let mut v: i128 = 0;
    for (i, &x) in b.iter().enumerate() {
        if i >= 10 {
            return None;
        }
        v |= ((x & 0x7f) as i128) << (7 * i as u32);
        if x & 0x80 == 0 {
            let bits = 7 * (i as u32 + 1);
            if x & 0x40 != 0 {
                v |= -1i128 << bits;
            }
            if v < i64::MIN as i128 || v > i64::MAX as i128 {
                return None;
            }
            return Some((v as i64, i + 1));
        }
    }
    None
}

pub fn addr_mask(addr_size: u8) -> u64 {
    if addr_size >= 8 {
        u64::MAX
    } else if addr_size == 0 {
        0
    } else {
        (1u64 << (8 * addr_size as u32)) - 1
    }
}

fn uint(b: &[u8], le: bool, n: usize) -> Option<u64> {
    if b.len() < n {
        return None;
    }
    let mut v = 0u64;
    for i in 0..n {
        let byte = if le { b[n - 1 - i] } else { b[i] };
        v = (v << 8) | byte as u64;
    }
    Some(v)
}

// ---------------------------------------------------------------- pointer encodings

#[derive(Clone, Debug, PartialEq, Eq)]
pub enum PeErr {
    /// the byte is not a known encoding
    Unknown(u8),
    /// DW_EH_PE_omit where a pointer is required
    Omit,
    NoSectionBase,
    NoTextBase,
    NoDataBase,
    NoFuncBase,
    /// DW_EH_PE_aligned (known, not supported) or an encoding not usable in this role
    Unsupported(u8),
    /// a direct pointer is required
    Indirect,
    /// ran out of bytes
    Eof,
    /// LEB128 does not fit
    BadLeb,
}

#[derive(Clone, Copy, Debug, PartialEq, Eq)]
pub enum Ptr {
    Direct(u64),
    Indirect(u64),
}

impl Ptr {
    pub fn value(self) -> u64 {
        match self {
            Ptr::Direct(v) | Ptr::Indirect(v) => v,
        }
    }
    pub fn direct(self) -> Result<u64, PeErr> {
        match self {
            Ptr::Direct(v) => Ok(v),
            Ptr::Indirect(_) => Err(PeErr::Indirect),
        }
    }
}

#[derive(Clone, Copy, Debug, Default, PartialEq, Eq)]
pub struct Bases {
    /// address of the section that contains the pointer (pcrel)
    pub section: Option<u64>,
    pub text: Option<u64>,
    pub data: Option<u64>,
    pub func: Option<u64>,
}

pub const PE_OMIT: u8 = 0xff;
pub const PE_FORMATS: [u8; 9] = [0x00, 0x01, 0x02, 0x03, 0x04, 0x09, 0x0a, 0x0b, 0x0c];

/// Known encoding: omit, or format in {absptr, uleb128, udata2/4/8, sleb128, sdata2/4/8}
/// and application in {abs, pcrel, textrel, datarel, funcrel, aligned}; bit 7 = indirect.
pub fn pe_is_valid(enc: u8) -> bool {
    if enc == PE_OMIT {
        return true;
    }
    let fmt_ok = PE_FORMATS.contains(&(enc & 0x0f));
    let app_ok = ((enc >> 4) & 0x7) <= 5;
    fmt_ok && app_ok
}

/// Width in bytes of a fixed-width format (absptr = address size); `None` for LEB128.
pub fn pe_fixed_width(enc: u8, addr_size: u8) -> Option<usize> {
    match enc & 0x0f {
        0x00 => Some(addr_size as usize),
        0x02 | 0x0a => Some(2),
        0x03 | 0x0b => Some(4),
        0x04 | 0x0c => Some(8),
        _ => None,
    }
}

/// Raw value of the format nibble (signed formats are sign-extended to 64 bits).
pub fn pe_read_value(enc: u8, b: &[u8], le: bool, addr_size: u8) -> Result<(u64, usize), PeErr> {
    match enc & 0x0f {
        0x00 => uint(b, le, (addr_size as usize).min(8)).map(|v| (v, (addr_size as usize).min(8))).ok_or(PeErr::Eof),
        0x01 => match uleb_dec(b) {
            Some((v, n)) => Ok((v, n)),
            None => Err(if b.iter().take(10).any(|x| x & 0x80 == 0) || b.len() >= 10 { PeErr::BadLeb } else { PeErr::Eof }),
        },
        0x02 => uint(b, le, 2).map(|v| (v, 2)).ok_or(PeErr::Eof),
        0x03 => uint(b, le, 4).map(|v| (v, 4)).ok_or(PeErr::Eof),
        0x04 => uint(b, le, 8).map(|v| (v, 8)).ok_or(PeErr::Eof),
        0x09 => match sleb_dec(b) {
            Some((v, n)) => Ok((v as u64, n)),
            None => Err(if b.iter().take(10).any(|x| x & 0x80 == 0) || b.len() >= 10 { PeErr::BadLeb } else { PeErr::Eof }),
        },
        0x0a => uint(b, le, 2).map(|v| (v as u16 as i16 as i64 as u64, 2)).ok_or(PeErr::Eof),
        0x0b => uint(b, le, 4).map(|v| (v as u32 as i32 as i64 as u64, 4)).ok_or(PeErr::Eof),
        0x0c => uint(b, le, 8).map(|v| (v, 8)).ok_or(PeErr::Eof),
        _ => Err(PeErr::Unknown(enc)),
    }
}

/// Decode one encoded pointer whose first byte is at section offset `pos`.
pub fn pe_decode(enc: u8, b: &[u8], le: bool, pos: u64, bases: &Bases, addr_size: u8) -> Result<(Ptr, usize), PeErr> {
    if !pe_is_valid(enc) {
        return Err(PeErr::Unknown(enc));
    }
    if enc == PE_OMIT {
        return Err(PeErr::Omit);
    }
    let mask = addr_mask(addr_size);
    let base = match (enc >> 4) & 0x7 {
        0 => 0,
        1 => bases.section.ok_or(PeErr::NoSectionBase)?.wrapping_add(pos) & mask,
        2 => bases.text.ok_or(PeErr::NoTextBase)?,
        3 => bases.data.ok_or(PeErr::NoDataBase)?,
        4 => bases.func.ok_or(PeErr::NoFuncBase)?,
        _ => return Err(PeErr::Unsupported(enc)),
    };
    let (v, n) = pe_read_value(enc, b, le, addr_size)?;
    let p = base.wrapping_add(v) & mask;
    Ok((if enc & 0x80 != 0 { Ptr::Indirect(p) } else { Ptr::Direct(p) }, n))
}

// ---------------------------------------------------------------- rows

#[derive(Clone, Debug, PartialEq, Eq, PartialOrd, Ord)]
pub enum Cfa {
    RegOff { reg: Reg, off: i64 },
    /// expression bytes at (section offset, length)
    Expr { off: u64, len: u64 },
}

#[derive(Clone, Debug, PartialEq, Eq, PartialOrd, Ord)]
pub enum Rule {
    Undefined,
    SameValue,
    Offset(i64),
    ValOffset(i64),
    Register(Reg),
    Expression { off: u64, len: u64 },
    ValExpression { off: u64, len: u64 },
    Architectural,
    Constant(u64),
}

#[derive(Clone, Debug, PartialEq, Eq)]
pub struct Row {
    pub start: u64,
    pub end: u64,
    pub cfa: Cfa,
    pub rules: BTreeMap<Reg, Rule>,
    pub args_size: u64,
}

#[derive(Clone, Debug, PartialEq, Eq)]
pub enum CfiError {
    StackFull,
    TooManyRegisterRules,
    PopWithEmptyStack,
    /// instruction not valid in its context (def_cfa_register/offset with an expression CFA,
    /// restore in a CIE, negate_ra_state on a non-constant rule)
    InvalidContext,
    InvalidSetLoc(u64),
    AddressOverflow,
    UnknownInstruction(u8),
    UnsupportedRegister(u64),
    /// operand ran past the end of the instruction stream
    Eof,
    BadLeb,
    Pe(PeErr),
    NoUnwindInfo,
}

/// AArch64 pseudo-register toggled by DW_CFA_AARCH64_negate_ra_state.
pub const RA_SIGN_STATE: Reg = 34;

/// One call-frame instruction as encoded (operands are the encoded, still factored values).
#[derive(Clone, Debug, PartialEq, Eq)]
pub enum Insn {
    /// any of advance_loc / advance_loc1/2/4: the unfactored delta operand
    AdvanceLoc(u32),
    /// set_loc with its decoded target (or the pointer-decoding error)
    SetLoc(Result<u64, PeErr>),
    DefCfa { reg: Reg, off: u64 },
    DefCfaSf { reg: Reg, off: i64 },
    DefCfaRegister(Reg),
    DefCfaOffset(u64),
    DefCfaOffsetSf(i64),
    DefCfaExpression { off: u64, len: u64 },
    Undefined(Reg),
    SameValue(Reg),
    /// offset / offset_extended (unsigned factored offset)
    Offset { reg: Reg, off: u64 },
    OffsetSf { reg: Reg, off: i64 },
    ValOffset { reg: Reg, off: u64 },
    ValOffsetSf { reg: Reg, off: i64 },
    Register { dst: Reg, src: Reg },
    Expression { reg: Reg, off: u64, len: u64 },
    ValExpression { reg: Reg, off: u64, len: u64 },
    /// restore / restore_extended
    Restore(Reg),
    RememberState,
    RestoreState,
    ArgsSize(u64),
    NegateRaState,
    Nop,
    /// bytes that the decoder must reject with this error
    Invalid(CfiError),
}

#[derive(Clone, Debug)]
pub struct Program<'a> {
    pub cie: &'a [Insn],
    pub fde: &'a [Insn],
    pub code_align: u64,
    pub data_align: i64,
    pub addr_size: u8,
    /// FDE initial address
    pub initial: u64,
    /// FDE end address (initial + range, wrapped to the address size)
    pub end: u64,
}

#[derive(Clone, Copy, Debug, Default, PartialEq, Eq)]
pub struct Limits {
    /// capacity of the row stack (None = unlimited)
    pub stack: Option<usize>,
    /// capacity of one row's rule table (None = unlimited)
    pub rules: Option<usize>,
}

#[derive(Clone, Copy, Debug, Default, PartialEq, Eq)]
pub struct Need {
    /// 1 + remembered rows + (1 if >= 2 initial rules), peak
    pub peak_rows: usize,
    /// peak number of distinct registers with a rule in the working row
    pub peak_rules: usize,
}

#[derive(Clone, Debug)]
pub struct Table {
    pub rows: Vec<Row>,
    /// the error that ends the table after `rows`
    pub error: Option<CfiError>,
    /// the error happens while running the CIE's initial instructions (or installing them)
    pub error_in_cie: bool,
    pub need: Need,
    pub initial_rules: BTreeMap<Reg, Rule>,
    /// instructions executed successfully
    pub steps: usize,
}

impl Table {
    /// What an address-driven evaluation (rows in order, stop at the first containing row)
    /// must return: the row, the error met before reaching it, or `NoUnwindInfo`.
    pub fn lookup(&self, addr: u64) -> Result<&Row, CfiError> {
        for r in &self.rows {
            if r.start <= addr && addr < r.end {
                return Ok(r);
            }
        }
        match &self.error {
            Some(e) => Err(e.clone()),
            None => Err(CfiError::NoUnwindInfo),
        }
    }
}

#[derive(Clone, Debug)]
struct State {
    cfa: Cfa,
    rules: BTreeMap<Reg, Rule>,
    args: u64,
}

struct Machine {
    stack: Vec<State>,
    extra: usize,
    lim: Limits,
    need: Need,
}

impl Machine {
    fn top(&mut self) -> &mut State {
        self.stack.last_mut().unwrap()
    }
    fn note(&mut self) {
        let rows = self.stack.len() + self.extra;
        if rows > self.need.peak_rows {
            self.need.peak_rows = rows;
        }
        let rules = self.stack.last().map(|s| s.rules.len()).unwrap_or(0);
        if rules > self.need.peak_rules {
            self.need.peak_rules = rules;
        }
    }
    fn set(&mut self, reg: Reg, rule: Rule) -> Result<(), CfiError> {
        let cap = self.lim.rules;
        let top = self.top();
        if !top.rules.contains_key(&reg) {
            if let Some(c) = cap {
                if top.rules.len() >= c {
                    return Err(CfiError::TooManyRegisterRules);
                }
            }
        }
        top.rules.insert(reg, rule);
        self.note();
        Ok(())
    }
    fn push(&mut self) -> Result<(), CfiError> {
        if let Some(c) = self.lim.stack {
            if self.stack.len() + self.extra >= c {
                return Err(CfiError::StackFull);
            }
        }
        let t = self.stack.last().unwrap().clone();
        self.stack.push(t);
        self.note();
        Ok(())
    }
}

fn add_sized(a: u64, d: u64, addr_size: u8) -> Result<u64, CfiError> {
    let s = a.checked_add(d).ok_or(CfiError::AddressOverflow)?;
    if s & !addr_mask(addr_size) != 0 {
        return Err(CfiError::AddressOverflow);
    }
    Ok(s)
}

enum Step {
    Cont,
    /// the current row ends here and the next one starts at this address
    NewRow(u64),
}

fn step(m: &mut Machine, p: &Program, i: &Insn, start: u64, initial: Option<&BTreeMap<Reg, Rule>>) -> Result<Step, CfiError> {
    let da = p.data_align;
    match i {
        Insn::AdvanceLoc(d) => {
            let delta = (*d as u64).wrapping_mul(p.code_align);
            return Ok(Step::NewRow(add_sized(start, delta, p.addr_size)?));
        }
        Insn::SetLoc(t) => {
            let a = match t {
                Ok(a) => *a,
                Err(e) => return Err(CfiError::Pe(e.clone())),
            };
            if a < start {
                return Err(CfiError::InvalidSetLoc(a));
            }
            return Ok(Step::NewRow(a));
        }
        Insn::DefCfa { reg, off } => m.top().cfa = Cfa::RegOff { reg: *reg, off: *off as i64 },
        Insn::DefCfaSf { reg, off } => m.top().cfa = Cfa::RegOff { reg: *reg, off: off.wrapping_mul(da) },
        Insn::DefCfaRegister(r) => match &mut m.top().cfa {
            Cfa::RegOff { reg, .. } => *reg = *r,
            _ => return Err(CfiError::InvalidContext),
        },
        Insn::DefCfaOffset(o) => match &mut m.top().cfa {
            Cfa::RegOff { off, .. } => *off = *o as i64,
            _ => return Err(CfiError::InvalidContext),
        },
        Insn::DefCfaOffsetSf(o) => match &mut m.top().cfa {
            Cfa::RegOff { off, .. } => *off = o.wrapping_mul(da),
            _ => return Err(CfiError::InvalidContext),
        },
        Insn::DefCfaExpression { off, len } => m.top().cfa = Cfa::Expr { off: *off, len: *len },
        Insn::Undefined(r) => m.set(*r, Rule::Undefined)?,
        Insn::SameValue(r) => m.set(*r, Rule::SameValue)?,
        Insn::Offset { reg, off } => m.set(*reg, Rule::Offset((*off as i64).wrapping_mul(da)))?,
        Insn::OffsetSf { reg, off } => m.set(*reg, Rule::Offset(off.wrapping_mul(da)))?,
        Insn::ValOffset { reg, off } => m.set(*reg, Rule::ValOffset((*off as i64).wrapping_mul(da)))?,
        Insn::ValOffsetSf { reg, off } => m.set(*reg, Rule::ValOffset(off.wrapping_mul(da)))?,
        Insn::Register { dst, src } => m.set(*dst, Rule::Register(*src))?,
        Insn::Expression { reg, off, len } => m.set(*reg, Rule::Expression { off: *off, len: *len })?,
        Insn::ValExpression { reg, off, len } => m.set(*reg, Rule::ValExpression { off: *off, len: *len })?,
        Insn::Restore(r) => match initial {
            None => return Err(CfiError::InvalidContext),
            Some(init) => match init.get(r) {
                Some(rule) => m.set(*r, rule.clone())?,
                None => {
                    m.top().rules.remove(r);
                }
            },
        },
        Insn::RememberState => m.push()?,
        Insn::RestoreState => {
            if m.stack.len() <= 1 {
                return Err(CfiError::PopWithEmptyStack);
            }
            m.stack.pop();
        }
        Insn::ArgsSize(s) => m.top().args = *s,
        Insn::NegateRaState => {
            let v = match m.top().rules.get(&RA_SIGN_STATE) {
                None => 0,
                Some(Rule::Constant(v)) => *v,
                Some(_) => return Err(CfiError::InvalidContext),
            };
            m.set(RA_SIGN_STATE, Rule::Constant(v ^ 1))?;
        }
        Insn::Nop => {}
        Insn::Invalid(e) => return Err(e.clone()),
    }
    Ok(Step::Cont)
}

/// Interpret a CIE + FDE program under the given capacities.
pub fn interpret(p: &Program, lim: Limits) -> Table {
    let mut m = Machine {
        stack: vec![State { cfa: Cfa::RegOff { reg: 0, off: 0 }, rules: BTreeMap::new(), args: 0 }],
        extra: 0,
        lim,
        need: Need { peak_rows: 1, peak_rules: 0 },
    };
    let mut t = Table { rows: vec![], error: None, error_in_cie: false, need: Need::default(), initial_rules: BTreeMap::new(), steps: 0 };
    // ---- CIE: initial instructions, location counter starts at 0, rows are discarded
    let mut start = 0u64;
    for i in p.cie {
        match step(&mut m, p, i, start, None) {
            Ok(Step::Cont) => {}
            Ok(Step::NewRow(a)) => start = a,
            Err(e) => {
                t.error = Some(e);
                t.error_in_cie = true;
                t.need = m.need;
                return t;
            }
        }
        t.steps += 1;
    }
    let initial = m.stack.last().unwrap().rules.clone();
    if initial.len() >= 2 {
        // the initial rules need a row of their own
        if let Some(c) = lim.stack {
            if m.stack.len() + 1 > c {
                t.error = Some(CfiError::StackFull);
                t.error_in_cie = true;
                m.need.peak_rows = m.need.peak_rows.max(m.stack.len() + 1);
                t.need = m.need;
                return t;
            }
        }
        m.extra = 1;
        m.note();
    }
    t.initial_rules = initial.clone();
    // ---- FDE
    let mut start = p.initial;
    for i in p.fde {
        match step(&mut m, p, i, start, Some(&initial)) {
            Ok(Step::Cont) => {}
            Ok(Step::NewRow(a)) => {
                let s = m.stack.last().unwrap();
                t.rows.push(Row { start, end: a, cfa: s.cfa.clone(), rules: s.rules.clone(), args_size: s.args });
                start = a;
            }
            Err(e) => {
                t.error = Some(e);
                t.need = m.need;
                return t;
            }
        }
        t.steps += 1;
    }
    let s = m.stack.last().unwrap();
    t.rows.push(Row { start, end: p.end, cfa: s.cfa.clone(), rules: s.rules.clone(), args_size: s.args });
    t.need = m.need;
    t
}

// ---------------------------------------------------------------- address lookups

/// Exhaustive scan: indices of all `(initial, end)` ranges with `initial <= addr < end`.
pub fn scan_fdes(ranges: &[(u64, u64)], addr: u64) -> Vec<usize> {
    ranges.iter().enumerate().filter(|(_, (s, e))| *s <= addr && addr < *e).map(|(i, _)| i).collect()
}

/// `.eh_frame_hdr` search over a table sorted by initial location: index of the last entry
/// whose initial location is <= `addr`, or 0 when there is none (the caller must then check
/// that the FDE really contains the address).  `None` for an empty table.
pub fn hdr_search(sorted_initials: &[u64], addr: u64) -> Option<usize> {
    if sorted_initials.is_empty() {
        return None;
    }
    let mut best = 0usize;
    for (i, a) in sorted_initials.iter().enumerate() {
        if *a <= addr {
            best = i;
        }
    }
    Some(best)
}

// ---------------------------------------------------------------- adapters (pure conversions)

pub fn ptr_from_gimli(p: gimli::Pointer) -> Ptr {
    match p {
        gimli::Pointer::Direct(v) => Ptr::Direct(v),
        gimli::Pointer::Indirect(v) => Ptr::Indirect(v),
    }
}

fn rule_from_gimli(r: &gimli::RegisterRule<usize>) -> Rule {
    use gimli::RegisterRule as G;
    match r {
        G::Undefined => Rule::Undefined,
        G::SameValue => Rule::SameValue,
        G::Offset(o) => Rule::Offset(*o),
        G::ValOffset(o) => Rule::ValOffset(*o),
        G::Register(r) => Rule::Register(r.0),
        G::Expression(e) => Rule::Expression { off: e.offset as u64, len: e.length as u64 },
        G::ValExpression(e) => Rule::ValExpression { off: e.offset as u64, len: e.length as u64 },
        G::Architectural => Rule::Architectural,
        G::Constant(c) => Rule::Constant(*c),
    }
}

/// Convert a gimli row; also returns the number of `(register, rule)` entries that
/// `registers()` yielded (must equal `row.rules.len()`, i.e. no duplicates).
pub fn row_from_gimli<S: gimli::UnwindContextStorage<usize>>(row: &gimli::UnwindTableRow<usize, S>) -> (Row, usize) {
    let cfa = match row.cfa() {
        gimli::CfaRule::RegisterAndOffset { register, offset } => Cfa::RegOff { reg: register.0, off: *offset },
        gimli::CfaRule::Expression(e) => Cfa::Expr { off: e.offset as u64, len: e.length as u64 },
    };
    let mut rules = BTreeMap::new();
    let mut n = 0usize;
    for (reg, rule) in row.registers() {
        n += 1;
        rules.insert(reg.0, rule_from_gimli(rule));
    }
    (Row { start: row.start_address(), end: row.end_address(), cfa, rules, args_size: row.saved_args_size() }, n)
}

pub fn insn_from_gimli(i: &gimli::CallFrameInstruction<usize>) -> Insn {
    use gimli::CallFrameInstruction as G;
    match i {
        G::SetLoc { address } => Insn::SetLoc(Ok(*address)),
        G::AdvanceLoc { delta } => Insn::AdvanceLoc(*delta),
        G::DefCfa { register, offset } => Insn::DefCfa { reg: register.0, off: *offset },
        G::DefCfaSf { register, factored_offset } => Insn::DefCfaSf { reg: register.0, off: *factored_offset },
        G::DefCfaRegister { register } => Insn::DefCfaRegister(register.0),
        G::DefCfaOffset { offset } => Insn::DefCfaOffset(*offset),
        G::DefCfaOffsetSf { factored_offset } => Insn::DefCfaOffsetSf(*factored_offset),
        G::DefCfaExpression { expression } => Insn::DefCfaExpression { off: expression.offset as u64, len: expression.length as u64 },
        G::Undefined { register } => Insn::Undefined(register.0),
        G::SameValue { register } => Insn::SameValue(register.0),
        G::Offset { register, factored_offset } => Insn::Offset { reg: register.0, off: *factored_offset },
        G::OffsetExtendedSf { register, factored_offset } => Insn::OffsetSf { reg: register.0, off: *factored_offset },
        G::ValOffset { register, factored_offset } => Insn::ValOffset { reg: register.0, off: *factored_offset },
        G::ValOffsetSf { register, factored_offset } => Insn::ValOffsetSf { reg: register.0, off: *factored_offset },
        G::Register { dest_register, src_register } => Insn::Register { dst: dest_register.0, src: src_register.0 },
        G::Expression { register, expression } => Insn::Expression { reg: register.0, off: expression.offset as u64, len: expression.length as u64 },
        G::ValExpression { register, expression } => Insn::ValExpression { reg: register.0, off: expression.offset as u64, len: expression.length as u64 },
        G::Restore { register } => Insn::Restore(register.0),
        G::RememberState => Insn::RememberState,
        G::RestoreState => Insn::RestoreState,
        G::ArgsSize { size } => Insn::ArgsSize(*size),
        G::NegateRaState => Insn::NegateRaState,
        G::Nop => Insn::Nop,
    }
}

pub fn pe_error_matches(m: &PeErr, g: &gimli::Error) -> bool {
    use gimli::Error as E;
    match (m, g) {
        (PeErr::Unknown(b), E::UnknownPointerEncoding(e)) => e.0 == *b,
        (PeErr::Omit, E::CannotParseOmitPointerEncoding) => true,
        (PeErr::NoSectionBase, E::PcRelativePointerButSectionBaseIsUndefined) => true,
        (PeErr::NoTextBase, E::TextRelativePointerButTextBaseIsUndefined) => true,
        (PeErr::NoDataBase, E::DataRelativePointerButDataBaseIsUndefined) => true,
        (PeErr::NoFuncBase, E::FuncRelativePointerInBadContext) => true,
        (PeErr::Unsupported(b), E::UnsupportedPointerEncoding(e)) => e.0 == *b,
        (PeErr::Indirect, E::UnsupportedIndirectPointer) => true,
        (PeErr::Eof, E::UnexpectedEof(_)) => true,
        (PeErr::BadLeb, E::BadUnsignedLeb128) | (PeErr::BadLeb, E::BadSignedLeb128) => true,
        _ => false,
    }
}

/// Does gimli's error equal the model's specific error?
pub fn error_matches(m: &CfiError, g: &gimli::Error) -> bool {
    use gimli::Error as E;
    match (m, g) {
        (CfiError::StackFull, E::StackFull) => true,
        (CfiError::TooManyRegisterRules, E::TooManyRegisterRules) => true,
        (CfiError::PopWithEmptyStack, E::PopWithEmptyStack) => true,
        (CfiError::InvalidContext, E::CfiInstructionInInvalidContext) => true,
        (CfiError::InvalidSetLoc(a), E::InvalidCfiSetLoc(b)) => a == b,
        (CfiError::AddressOverflow, E::AddressOverflow) => true,
        (CfiError::UnknownInstruction(b), E::UnknownCallFrameInstruction(c)) => c.0 == *b,
        (CfiError::UnsupportedRegister(r), E::UnsupportedRegister(s)) => r == s,
        (CfiError::Eof, E::UnexpectedEof(_)) => true,
        (CfiError::BadLeb, E::BadUnsignedLeb128) | (CfiError::BadLeb, E::BadSignedLeb128) => true,
        (CfiError::Pe(p), g) => pe_error_matches(p, g),
        (CfiError::NoUnwindInfo, E::NoUnwindInfoForAddress) => true,
        _ => false,
    }
}

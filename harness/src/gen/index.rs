//! Hand assemblers (with field maps) and seeded generators for the index family (C17):
//! `.debug_cu_index` / `.debug_tu_index` (versions 2 and 5), `.debug_names`,
//! `.debug_aranges`, `.debug_pubnames` / `.debug_pubtypes`, `.debug_str_offsets`,
//! `.debug_addr`, and small split-DWARF objects that are packaged into a `.dwp`.
//!
//! Nothing in here calls gimli: the bytes come from `crate::asm::Asm`, the models from
//! `crate::model::index`.

use crate::asm::{uleb_bytes, Asm, Enc, FieldKind};
use crate::model::index::*;
use crate::rt::Rng;
use std::collections::{BTreeMap, BTreeSet};

// ------------------------------------------------------------------ package index

/// Encode a unit index exactly as the model says (DWARF 5 §7.3.5.3).
pub fn asm_unit_index(m: &UnitIndexM, le: bool) -> Asm {
    let mut a = Asm::new(le);
    if m.version == 2 {
        a.f_uint(FieldKind::Version, "version", 4, 2);
    } else {
        a.f_uint(FieldKind::Version, "version", 2, m.version as u64);
        a.f_uint(FieldKind::Other, "padding", 2, 0);
    }
    a.f_uint(FieldKind::Count, "section_count", 4, m.columns.len() as u64);
    a.f_uint(FieldKind::Count, "unit_count", 4, m.rows.len() as u64);
    a.f_uint(FieldKind::Count, "slot_count", 4, m.slots.len() as u64);
    for s in &m.slots {
        a.f_uint(FieldKind::Data, "hash_id", 8, s.0);
    }
    for s in &m.slots {
        a.f_uint(FieldKind::Index, "hash_row", 4, s.1 as u64);
    }
    for c in &m.columns {
        a.f_uint(FieldKind::Other, "section_id", 4, c.code(m.version).unwrap_or(0xdead) as u64);
    }
    for r in &m.rows {
        for (o, _) in r {
            a.f_uint(FieldKind::Offset, "offset", 4, *o as u64);
        }
    }
    for r in &m.rows {
        for (_, s) in r {
            a.f_uint(FieldKind::Size, "size", 4, *s as u64);
        }
    }
    a
}

pub const KEY_PATTERNS: usize = 7;
pub const KEY_PATTERN_NAMES: [&str; KEY_PATTERNS] =
    ["random", "same_primary", "same_both", "clustered_step1", "even_step", "small_ints", "high_only"];

fn bits_outside(r: &mut Rng, mask: u64) -> u64 {
    // random bits that take part in neither hash
    let keep = !(mask | (mask << 32));
    r.next() & keep
}

/// `n` distinct non-zero keys for a table of `slots` slots following `pattern`.
pub fn gen_keys(r: &mut Rng, slots: usize, n: usize, pattern: usize) -> Vec<u64> {
    let mask = (slots as u64).wrapping_sub(1);
    let mut set: BTreeSet<u64> = BTreeSet::new();
    let mut out = vec![];
    let p = r.next() & mask;
    let q = r.next() & mask;
    let mut tries = 0u64;
    let mut k = 0u64;
    while out.len() < n && tries < 100_000 {
        tries += 1;
        k += 1;
        let key = match pattern {
            0 => r.next(),
            // same primary hash, any secondary
            1 => (r.next() & !mask) | p,
            // same primary and same secondary hash: identical probe sequences
            2 => bits_outside(r, mask) | p | (q << 32),
            // consecutive primary hashes, step 1: one contiguous cluster
            3 => (bits_outside(r, mask) & !(mask << 32)) | (p.wrapping_add(k) & mask),
            // same primary, secondary hash bits even (zero included): step relies on `| 1`
            4 => bits_outside(r, mask) | p | (((r.next() & mask) & !1) << 32),
            // 1, 2, 3, ... (high half zero)
            5 => k,
            // low half zero: primary hash 0 for every key
            _ => (r.next() << 32) | 0,
        };
        if key != 0 && set.insert(key) {
            out.push(key);
        }
    }
    out
}

/// Non-zero keys that are *not* in the table, biased to collide with present ones.
pub fn gen_absent(r: &mut Rng, m: &UnitIndexM, count: usize) -> Vec<u64> {
    let present: BTreeSet<u64> = m.present_ids().into_iter().collect();
    let pv: Vec<u64> = present.iter().copied().collect();
    let mask = (m.slots.len() as u64).wrapping_sub(1);
    let mut out = vec![];
    let mut fixed = vec![1u64, 2, u64::MAX, 1 << 63, 1 << 32, 0xffff_ffff, mask.wrapping_add(1) | 1 << 40];
    let mut tries = 0;
    while out.len() < count && tries < count * 20 + 50 {
        tries += 1;
        let k = if let Some(f) = fixed.pop() {
            f
        } else if pv.is_empty() {
            r.next()
        } else {
            let base = *r.pick(&pv);
            match r.below(6) {
                // same probe sequence as a present key
                0 => (base & (mask | (mask << 32))) | bits_outside(r, mask),
                // same primary hash
                1 => (r.next() & !mask) | (base & mask),
                // differs in one bit
                2 => base ^ (1u64 << r.below(64)),
                // halves swapped
                3 => base.rotate_left(32),
                4 => base.wrapping_add(1),
                _ => r.next(),
            }
        };
        if k != 0 && !present.contains(&k) && !out.contains(&k) {
            out.push(k);
        }
    }
    out
}

/// Build a table: `n` keys of `pattern` inserted by the standard's probing, rows shuffled.
pub fn gen_unit_index(r: &mut Rng, version: u16, columns: Vec<SectKind>, slots: usize, n: usize, pattern: usize, extra_rows: usize) -> UnitIndexM {
    let mut m = UnitIndexM::new(version, columns, slots);
    let keys = gen_keys(r, slots, n, pattern);
    let total_rows = keys.len() + extra_rows;
    let mut row_ids: Vec<u32> = (1..=total_rows as u32).collect();
    r.shuffle(&mut row_ids);
    let ncol = m.columns.len();
    let mut off: Vec<u32> = (0..ncol).map(|_| r.below(64) as u32).collect();
    for _ in 0..total_rows {
        let mut row = vec![];
        for c in 0..ncol {
            let size = match r.below(8) {
                0 => 0,
                1 => r.boundary_bits(32) as u32,
                _ => 1 + r.below(200) as u32,
            };
            let o = if r.chance(1, 16) { r.boundary_bits(32) as u32 } else { off[c] };
            row.push((o, size));
            off[c] = off[c].wrapping_add(size).wrapping_add(r.below(3) as u32);
        }
        m.rows.push(row);
    }
    for (i, k) in keys.iter().enumerate() {
        m.insert(*k, row_ids[i]);
    }
    m
}

// ------------------------------------------------------------------ .debug_names

pub struct NamesOpts {
    pub fmt64: bool,
    /// 0, 1, or n
    pub bucket_count: u32,
    pub n_names: usize,
    /// assign hashes from a small pool instead of hashing the names
    pub forced_hashes: bool,
    pub n_cu: usize,
    pub n_local_tu: usize,
    pub n_foreign_tu: usize,
}

const NAME_ALPHABET: &[char] = &[
    'a', 'b', 'z', 'A', 'B', 'Z', '_', '0', '9', ':', '<', '>', ' ', '~', 'k', 'K', 's', 'S', 'i', 'I', '\u{e9}', '\u{c9}', '\u{df}',
    '\u{130}', '\u{131}', '\u{17f}', '\u{3a3}', '\u{3c2}', '\u{3c3}', '\u{1e9e}', '\u{212a}', '\u{4e2d}', '\u{1f600}', '\u{10400}',
];

pub fn gen_name(r: &mut Rng) -> String {
    let n = 1 + r.below(10) as usize;
    let ascii_only = r.chance(2, 3);
    (0..n)
        .map(|_| if ascii_only { NAME_ALPHABET[r.usize(19)] } else { *r.pick(NAME_ALPHABET) })
        .collect()
}

fn fits(form: u16, v: u64) -> u64 {
    match form {
        FORM_DATA1 | FORM_REF1 => v & 0xff,
        FORM_DATA2 | FORM_REF2 => v & 0xffff,
        FORM_DATA4 | FORM_REF4 => v & 0xffff_ffff,
        _ => v,
    }
}

fn emit_form(a: &mut Asm, form: u16, v: IdxVal) {
    let raw = match v {
        IdxVal::Unsigned(x) | IdxVal::Offset(x) => x,
        IdxVal::Flag(b) => b as u64,
    };
    match form {
        FORM_DATA1 | FORM_REF1 | FORM_FLAG => {
            a.f_uint(FieldKind::Data, "idx_value", 1, raw);
        }
        FORM_DATA2 | FORM_REF2 => {
            a.f_uint(FieldKind::Data, "idx_value", 2, raw);
        }
        FORM_DATA4 | FORM_REF4 => {
            a.f_uint(FieldKind::Data, "idx_value", 4, raw);
        }
        FORM_DATA8 | FORM_REF8 => {
            a.f_uint(FieldKind::Data, "idx_value", 8, raw);
        }
        FORM_UDATA | FORM_REF_UDATA => {
            a.f_uleb(FieldKind::Uleb, "idx_value", raw);
        }
        _ => {} // flag_present: no bytes
    }
}

pub const DATA_FORMS: [u16; 5] = [FORM_DATA1, FORM_DATA2, FORM_DATA4, FORM_DATA8, FORM_UDATA];
pub const REF_FORMS: [u16; 5] = [FORM_REF1, FORM_REF2, FORM_REF4, FORM_REF8, FORM_REF_UDATA];

pub fn form_name(f: u16) -> &'static str {
    match f {
        FORM_DATA1 => "data1",
        FORM_DATA2 => "data2",
        FORM_DATA4 => "data4",
        FORM_DATA8 => "data8",
        FORM_UDATA => "udata",
        FORM_REF1 => "ref1",
        FORM_REF2 => "ref2",
        FORM_REF4 => "ref4",
        FORM_REF8 => "ref8",
        FORM_REF_UDATA => "ref_udata",
        FORM_FLAG => "flag",
        FORM_FLAG_PRESENT => "flag_present",
        _ => "other",
    }
}

/// Result of generating one name index: the model (offsets filled in) — bytes are appended
/// to `sec` (the `.debug_names` section) and strings to `debug_str`.
pub fn gen_name_index(r: &mut Rng, o: &NamesOpts, sec: &mut Asm, debug_str: &mut Vec<u8>) -> NameIndexM {
    let mut m = NameIndexM { fmt64: o.fmt64, bucket_count: o.bucket_count, ..Default::default() };
    let word = if o.fmt64 { 8usize } else { 4 };
    let wmask = if o.fmt64 { u64::MAX } else { 0xffff_ffff };
    m.offset = sec.len() as u64;
    for _ in 0..o.n_cu {
        m.cus.push(r.boundary() & wmask);
    }
    for _ in 0..o.n_local_tu {
        m.local_tus.push(r.boundary() & wmask);
    }
    for _ in 0..o.n_foreign_tu {
        m.foreign_tus.push(r.next() | 1);
    }
    // ---- abbreviations
    let n_abbrev = 1 + r.usize(4);
    let mut codes: BTreeSet<u64> = BTreeSet::new();
    while codes.len() < n_abbrev {
        let c = match r.below(4) {
            0 => 1 + r.below(5),
            1 => 1 + r.below(300),
            2 => 1 + (r.next() >> r.below(60)),
            _ => 0x7f + r.below(3),
        };
        if c != 0 {
            codes.insert(c);
        }
    }
    let mut codes: Vec<u64> = codes.into_iter().collect();
    r.shuffle(&mut codes);
    for (ai, code) in codes.iter().enumerate() {
        let tag = *r.pick(&[0x2eu16, 0x34, 0x13, 0x24, 0x39, 0x04, 0x16, 0x4109, 0xffff, 1]);
        let mut attrs: Vec<(u16, u16)> = vec![];
        if r.chance(3, 4) {
            attrs.push((DW_IDX_DIE_OFFSET, *r.pick(&REF_FORMS)));
        }
        if r.chance(1, 2) {
            attrs.push((DW_IDX_COMPILE_UNIT, *r.pick(&DATA_FORMS)));
        }
        if r.chance(1, 3) {
            attrs.push((DW_IDX_TYPE_UNIT, *r.pick(&DATA_FORMS)));
        }
        // the first abbreviation never has a reference parent so that the first entry of the
        // pool can always be encoded
        if r.chance(2, 3) {
            if ai == 0 || r.chance(1, 3) {
                attrs.push((DW_IDX_PARENT, FORM_FLAG_PRESENT));
            } else {
                attrs.push((DW_IDX_PARENT, *r.pick(&REF_FORMS)));
            }
        }
        if r.chance(1, 4) {
            attrs.push((DW_IDX_TYPE_HASH, FORM_DATA8));
        }
        if r.chance(1, 5) {
            attrs.push((0x2000 + r.below(0x1fff) as u16, *r.pick(&[FORM_DATA1, FORM_UDATA, FORM_FLAG, FORM_FLAG_PRESENT, FORM_REF4])));
        }
        r.shuffle(&mut attrs);
        m.abbrevs.push(NameAbbrevM { code: *code, tag, attrs });
    }
    let mut abb = Asm::new(sec.le);
    for ab in &m.abbrevs {
        abb.f_uleb(FieldKind::Uleb, "abbrev_code", ab.code);
        abb.f_uleb(FieldKind::Uleb, "abbrev_tag", ab.tag as u64);
        for (i, f) in &ab.attrs {
            abb.f_uleb(FieldKind::Uleb, "abbrev_idx", *i as u64);
            abb.f_uleb(FieldKind::Form, "abbrev_form", *f as u64);
        }
        abb.u8(0).u8(0);
    }
    abb.u8(0);
    // optional zero padding after the terminator (counts towards abbrev_table_size)
    if r.chance(1, 3) {
        abb.pad_to(4, 0);
    }
    m.abbrev_table_size = abb.len() as u32;

    // ---- names + hashes
    let mut seen: BTreeSet<String> = BTreeSet::new();
    let pool: Vec<u32> = (0..3).map(|_| r.next() as u32).collect();
    for _ in 0..o.n_names {
        let mut s = gen_name(r);
        let mut t = 0;
        while !seen.insert(s.clone()) && t < 20 {
            s = gen_name(r);
            t += 1;
        }
        let hash = if o.forced_hashes {
            match r.below(4) {
                // identical hash values
                0 | 1 => *r.pick(&pool),
                // same bucket, different hash
                2 if o.bucket_count > 0 => pool[0].wrapping_add(o.bucket_count.wrapping_mul(r.below(50) as u32)),
                _ => r.next() as u32,
            }
        } else {
            ref_case_folding_djb_hash(&s)
        };
        m.names.push(NameM { name: s.into_bytes(), hash, str_off: 0, entry_off: 0, entries: vec![] });
    }
    if o.bucket_count > 0 {
        let b = o.bucket_count;
        m.names.sort_by_key(|n| n.hash % b); // stable: keeps generation order inside a bucket
        m.buckets = vec![0; b as usize];
        for (i, n) in m.names.iter().enumerate() {
            let k = (n.hash % b) as usize;
            if m.buckets[k] == 0 {
                m.buckets[k] = i as u32 + 1;
            }
        }
    }
    // strings: some names share the string table with junk in front
    if debug_str.is_empty() {
        debug_str.push(0);
    }
    for n in m.names.iter_mut() {
        n.str_off = debug_str.len() as u64;
        debug_str.extend_from_slice(&n.name);
        debug_str.push(0);
    }
    // ---- entry pool
    let mut pool_a = Asm::new(sec.le);
    let mut emitted: Vec<u64> = vec![]; // pool offsets of entries emitted so far
    let n_tu_total = (o.n_local_tu + o.n_foreign_tu) as u64;
    let last = m.names.len().wrapping_sub(1);
    for ni in 0..m.names.len() {
        m.names[ni].entry_off = pool_a.len() as u64;
        let n_entries = 1 + r.usize(3);
        for _ in 0..n_entries {
            let ab = if emitted.is_empty() { m.abbrevs[0].clone() } else { r.pick(&m.abbrevs).clone() };
            let off = pool_a.len() as u64;
            pool_a.f_uleb(FieldKind::Uleb, "entry_abbrev", ab.code);
            let mut attrs = vec![];
            for (idx, form) in &ab.attrs {
                let v = match (*idx, *form) {
                    (_, FORM_FLAG_PRESENT) => IdxVal::Flag(true),
                    (_, FORM_FLAG) => IdxVal::Flag(r.bool()),
                    (DW_IDX_COMPILE_UNIT, f) => {
                        let x = if o.n_cu > 0 && r.chance(7, 8) { r.below(o.n_cu as u64) } else { r.boundary() };
                        IdxVal::Unsigned(fits(f, x))
                    }
                    (DW_IDX_TYPE_UNIT, f) => {
                        let x = if n_tu_total > 0 && r.chance(7, 8) { r.below(n_tu_total) } else { r.boundary() };
                        IdxVal::Unsigned(fits(f, x))
                    }
                    (DW_IDX_PARENT, f) => {
                        let x = if emitted.is_empty() { 0 } else { *r.pick(&emitted) };
                        // a parent offset that does not fit the form is replaced by the
                        // first entry (offset 0 always fits)
                        let x = if fits(f, x) == x { x } else { 0 };
                        IdxVal::Offset(x)
                    }
                    (DW_IDX_TYPE_HASH, _) => IdxVal::Unsigned(r.next()),
                    (_, f) if REF_FORMS.contains(&f) => {
                        let x = fits(f, r.boundary());
                        // offsets must fit usize on the reading side: always true on 64-bit
                        IdxVal::Offset(x)
                    }
                    (_, f) => IdxVal::Unsigned(fits(f, r.boundary())),
                };
                emit_form(&mut pool_a, *form, v);
                attrs.push((*idx, *form, v));
            }
            emitted.push(off);
            m.names[ni].entries.push(NameEntryM { pool_off: off, code: ab.code, tag: ab.tag, attrs });
        }
        // series terminator; the very last one may be missing (end of pool ends the series)
        if !(ni == last && r.chance(1, 4)) {
            pool_a.u8(0);
        }
    }
    // ---- augmentation
    m.augmentation = match r.below(6) {
        0 => vec![],
        1 => b"LLVM0700".to_vec(),
        2 => b"GV\0\0".to_vec(),
        3 => {
            let k = 4 * (1 + r.usize(3));
            r.bytes(k)
        }
        // size not a multiple of four: padded to four (A.8)
        4 => b"abcde".to_vec(),
        _ => b"x".to_vec(),
    };
    // ---- layout
    let lm = sec.begin_length(o.fmt64);
    sec.f_uint(FieldKind::Version, "version", 2, 5);
    sec.f_uint(FieldKind::Other, "padding", 2, 0);
    sec.f_uint(FieldKind::Count, "comp_unit_count", 4, m.cus.len() as u64);
    sec.f_uint(FieldKind::Count, "local_type_unit_count", 4, m.local_tus.len() as u64);
    sec.f_uint(FieldKind::Count, "foreign_type_unit_count", 4, m.foreign_tus.len() as u64);
    sec.f_uint(FieldKind::Count, "bucket_count", 4, m.bucket_count as u64);
    sec.f_uint(FieldKind::Count, "name_count", 4, m.names.len() as u64);
    sec.f_uint(FieldKind::Size, "abbrev_table_size", 4, m.abbrev_table_size as u64);
    sec.f_uint(FieldKind::Size, "augmentation_string_size", 4, m.augmentation.len() as u64);
    sec.f_bytes(FieldKind::Str, "augmentation_string", &m.augmentation.clone());
    let pad = (4 - (m.augmentation.len() & 3)) & 3;
    for _ in 0..pad {
        sec.u8(0);
    }
    for c in &m.cus {
        sec.f_uint(FieldKind::Offset, "cu_offset", word, *c);
    }
    for c in &m.local_tus {
        sec.f_uint(FieldKind::Offset, "local_tu_offset", word, *c);
    }
    for c in &m.foreign_tus {
        sec.f_uint(FieldKind::Data, "foreign_tu_signature", 8, *c);
    }
    for b in &m.buckets {
        sec.f_uint(FieldKind::Index, "bucket", 4, *b as u64);
    }
    if m.bucket_count > 0 {
        for n in &m.names {
            sec.f_uint(FieldKind::Data, "hash", 4, n.hash as u64);
        }
    }
    for n in &m.names {
        sec.f_uint(FieldKind::Offset, "string_offset", word, n.str_off);
    }
    for n in &m.names {
        sec.f_uint(FieldKind::Offset, "entry_offset", word, n.entry_off);
    }
    let base = sec.len();
    sec.bytes(&abb.buf);
    for f in &abb.fields {
        let mut f = f.clone();
        f.off += base;
        sec.fields.push(f);
    }
    let base = sec.len();
    sec.bytes(&pool_a.buf);
    for f in &pool_a.fields {
        let mut f = f.clone();
        f.off += base;
        sec.fields.push(f);
    }
    sec.end_length(lm);
    m.length = (sec.len() - lm.body) as u64;
    m
}

// ------------------------------------------------------------------ aranges

pub fn gen_arange_set(r: &mut Rng, fmt64: bool, addr_size: u8) -> ArangeSetM {
    let mask = addr_mask(addr_size);
    let n = r.small(12) as usize;
    let mut tuples = vec![];
    for _ in 0..n {
        let t = match r.below(12) {
            0 => (0, 0),
            1 => (mask, r.below(100)),                 // -1 tombstone
            2 => (mask - 1, r.below(100)),             // -2 tombstone
            3 => (mask - 2, r.below(3)),               // just below the tombstones; may overflow
            4 => (r.boundary() & mask, r.boundary() & mask),
            5 => (0, 1 + r.below(1000) & mask),        // address 0, non-zero length
            6 => ((1 + r.below(1000)) & mask, 0),      // zero length
            _ => {
                let a = r.next() & (mask >> 1);
                let l = r.next() & (mask >> 2);
                (a, l.min(mask - a))
            }
        };
        tuples.push(t);
    }
    // the terminating tuple (present in all real tables; sometimes omitted here)
    if !r.chance(1, 6) {
        tuples.push((0, 0));
    }
    let wmask = if fmt64 { u64::MAX } else { 0xffff_ffff };
    ArangeSetM {
        fmt64,
        version: if r.chance(1, 5) { 3 } else { 2 },
        offset: 0,
        length: 0,
        info_offset: r.boundary() & wmask,
        addr_size,
        tuples,
    }
}

/// Append the set to the section; fills `offset` and `length` in the model.
pub fn asm_arange_set(a: &mut Asm, s: &mut ArangeSetM, pad_fill: u8) {
    s.offset = a.len() as u64;
    let lm = a.begin_length(s.fmt64);
    a.f_uint(FieldKind::Version, "version", 2, s.version as u64);
    a.f_uint(FieldKind::Offset, "debug_info_offset", if s.fmt64 { 8 } else { 4 }, s.info_offset);
    a.f_uint(FieldKind::Size, "address_size", 1, s.addr_size as u64);
    a.f_uint(FieldKind::Size, "segment_size", 1, 0);
    for _ in 0..s.padding() {
        a.u8(pad_fill);
    }
    for (x, l) in &s.tuples {
        a.f_uint(FieldKind::Address, "address", s.addr_size as usize, *x);
        a.f_uint(FieldKind::Length, "length", s.addr_size as usize, *l);
    }
    a.end_length(lm);
    s.length = (a.len() - lm.body) as u64;
}

// ------------------------------------------------------------------ pubnames / pubtypes

pub fn gen_pub_set(r: &mut Rng, fmt64: bool) -> PubSetM {
    let wmask = if fmt64 { u64::MAX } else { 0xffff_ffff };
    let n = r.small(8) as usize;
    let mut entries = vec![];
    for _ in 0..n {
        let mut d = r.boundary() & wmask;
        if d == 0 {
            d = 1 + r.below(1000);
        }
        let name = match r.below(5) {
            0 => vec![],
            _ => gen_name(r).into_bytes(),
        };
        entries.push((d, name));
    }
    PubSetM { fmt64, unit_offset: r.boundary() & wmask, unit_length: r.boundary() & wmask, entries }
}

/// `terminator`: emit the zero offset that ends the set; `junk`: bytes after the terminator
/// that still belong to the set (ignored by readers).
pub fn asm_pub_set(a: &mut Asm, s: &PubSetM, terminator: bool, junk: &[u8]) {
    let word = if s.fmt64 { 8 } else { 4 };
    let lm = a.begin_length(s.fmt64);
    a.f_uint(FieldKind::Version, "version", 2, 2);
    a.f_uint(FieldKind::Offset, "unit_offset", word, s.unit_offset);
    a.f_uint(FieldKind::Length, "unit_length", word, s.unit_length);
    for (d, n) in &s.entries {
        a.f_uint(FieldKind::Offset, "die_offset", word, *d);
        a.f_bytes(FieldKind::Str, "name", n);
        a.u8(0);
    }
    if terminator {
        a.f_uint(FieldKind::Offset, "terminator", word, 0);
        a.bytes(junk);
    }
    a.end_length(lm);
}

// ------------------------------------------------------------------ str_offsets / addr

/// A `.debug_str_offsets` section with several contributions (v5 headers or GNU bare).
pub fn gen_str_offsets(r: &mut Rng, le: bool) -> (Asm, Vec<TableM>) {
    let mut a = Asm::new(le);
    let mut tables = vec![];
    let n = 1 + r.usize(3);
    for _ in 0..n {
        let fmt64 = r.chance(1, 3);
        let word = if fmt64 { 8 } else { 4 };
        let count = r.small(20) as usize;
        let header = r.chance(2, 3);
        let junk = r.usize(3);
        for _ in 0..junk {
            a.u8(0xee);
        }
        let lm = if header { Some(a.begin_length(fmt64)) } else { None };
        if header {
            a.f_uint(FieldKind::Version, "version", 2, 5);
            a.f_uint(FieldKind::Other, "padding", 2, 0);
        }
        let base = a.len() as u64;
        let mut entries = vec![];
        for _ in 0..count {
            let v = r.boundary() & if fmt64 { u64::MAX } else { 0xffff_ffff };
            a.f_uint(FieldKind::Offset, "str_offset", word, v);
            entries.push(v);
        }
        if let Some(lm) = lm {
            a.end_length(lm);
        }
        tables.push(TableM { base, entry_size: word as u8, fmt64, entries });
    }
    (a, tables)
}

/// A `.debug_addr` section with several tables.
pub fn gen_addr(r: &mut Rng, le: bool) -> (Asm, Vec<TableM>) {
    let mut a = Asm::new(le);
    let mut tables = vec![];
    let n = 1 + r.usize(3);
    for _ in 0..n {
        let fmt64 = r.chance(1, 3);
        let size = *r.pick(&[1u8, 2, 4, 8]);
        let count = r.small(20) as usize;
        let header = r.chance(2, 3);
        let lm = if header { Some(a.begin_length(fmt64)) } else { None };
        if header {
            a.f_uint(FieldKind::Version, "version", 2, 5);
            a.f_uint(FieldKind::Size, "address_size", 1, size as u64);
            a.f_uint(FieldKind::Size, "segment_selector_size", 1, 0);
        }
        let base = a.len() as u64;
        let mut entries = vec![];
        for _ in 0..count {
            let v = r.boundary() & addr_mask(size);
            a.f_uint(FieldKind::Address, "address", size as usize, v);
            entries.push(v);
        }
        if let Some(lm) = lm {
            a.end_length(lm);
        }
        tables.push(TableM { base, entry_size: size, fmt64, entries });
    }
    (a, tables)
}

// ------------------------------------------------------------------ split DWARF objects and packages

/// What the generator knows about one DIE (only the facts the check compares).
#[derive(Clone, Debug)]
pub struct DieM {
    pub depth: usize,
    pub tag: u16,
    /// resolved DW_AT_name, if the DIE has one
    pub name: Option<Vec<u8>>,
    /// resolved DW_AT_low_pc, if any
    pub low_pc: Option<u64>,
}

#[derive(Clone, Debug)]
pub struct UnitM {
    /// dwo id (compile unit) or type signature (type unit)
    pub id: u64,
    pub is_type: bool,
    pub dies: Vec<DieM>,
}

/// One standalone `.dwo` object: its sections (keyed by kind) + `.debug_str.dwo`.
#[derive(Clone, Debug, Default)]
pub struct DwoObject {
    pub secs: BTreeMap<SectKind, Vec<u8>>,
    pub str: Vec<u8>,
    /// position of each unit inside its section: (kind of section, offset, size)
    pub unit_pos: Vec<(SectKind, usize, usize)>,
    pub units: Vec<UnitM>,
}

#[derive(Clone, Debug)]
pub struct Package {
    pub enc: Enc,
    pub objects: Vec<DwoObject>,
    pub secs: BTreeMap<SectKind, Vec<u8>>,
    pub str: Vec<u8>,
    pub cu_index: UnitIndexM,
    pub tu_index: UnitIndexM,
    /// parent (skeleton) file sections
    pub parent_addr: Vec<u8>,
    pub parent_addr_base: u64,
    pub parent_ranges: Vec<u8>,
    pub addresses: Vec<u64>,
}

const DW_TAG_COMPILE_UNIT: u16 = 0x11;
const DW_TAG_TYPE_UNIT: u16 = 0x41;
const DW_TAG_SUBPROGRAM: u16 = 0x2e;
const DW_TAG_VARIABLE: u16 = 0x34;
const DW_TAG_BASE_TYPE: u16 = 0x24;
const DW_TAG_STRUCT: u16 = 0x13;

const AT_NAME: u64 = 0x03;
const AT_BYTE_SIZE: u64 = 0x0b;
const AT_STMT_LIST: u64 = 0x10;
const AT_LOW_PC: u64 = 0x11;
const AT_HIGH_PC: u64 = 0x12;
const AT_LANGUAGE: u64 = 0x13;
const AT_CONST_VALUE: u64 = 0x1c;
const AT_PRODUCER: u64 = 0x25;
const AT_LOCATION: u64 = 0x02;
const AT_TYPE: u64 = 0x49;
const AT_RANGES: u64 = 0x55;
const AT_GNU_DWO_ID: u64 = 0x2131;

const F_DATA1: u64 = 0x0b;
const F_DATA2: u64 = 0x05;
const F_DATA4: u64 = 0x06;
const F_DATA8: u64 = 0x07;
const F_SDATA: u64 = 0x0d;
const F_STRING: u64 = 0x08;
const F_REF4: u64 = 0x13;
const F_SEC_OFFSET: u64 = 0x17;
const F_STRX: u64 = 0x1a;
const F_ADDRX: u64 = 0x1b;
const F_STRX1: u64 = 0x25;
const F_LOCLISTX: u64 = 0x22;
const F_RNGLISTX: u64 = 0x23;
const F_GNU_ADDR_INDEX: u64 = 0x1f01;
const F_GNU_STR_INDEX: u64 = 0x1f02;

struct StrTab {
    bytes: Vec<u8>,
    offsets: Vec<u64>,
    names: Vec<Vec<u8>>,
}

impl StrTab {
    fn add(&mut self, s: &[u8]) -> u64 {
        let idx = self.offsets.len() as u64;
        self.offsets.push(self.bytes.len() as u64);
        self.bytes.extend_from_slice(s);
        self.bytes.push(0);
        self.names.push(s.to_vec());
        idx
    }
}

fn abbrev_decl(a: &mut Asm, code: u64, tag: u16, children: bool, attrs: &[(u64, u64)]) {
    a.uleb(code).uleb(tag as u64).u8(children as u8);
    for (n, f) in attrs {
        a.uleb(*n).uleb(*f);
    }
    a.u8(0).u8(0);
}

/// Generate one `.dwo` object with one compile unit and `n_tu` type units.
/// `tag` makes names unique per object.  `n_addr` = number of entries in the parent's
/// `.debug_addr`; `ranges_offsets` = valid list offsets in the parent's `.debug_ranges`.
pub fn gen_dwo_object(r: &mut Rng, enc: Enc, tag: usize, cu_id: u64, tu_sigs: &[u64], addresses: &[u64], ranges_offsets: &[u64], with: &BTreeSet<SectKind>) -> DwoObject {
    let le = enc.le;
    let v5 = enc.version >= 5;
    let word = enc.word() as usize;
    let mut obj = DwoObject::default();
    let mut st = StrTab { bytes: vec![], offsets: vec![], names: vec![] };
    // a little junk at the start of the string section so that offset 0 is not a name
    st.bytes.extend_from_slice(format!("pad{tag}").as_bytes());
    st.bytes.push(0);

    let strx_form = if v5 { if r.bool() { F_STRX1 } else { F_STRX } } else { F_GNU_STR_INDEX };
    let addrx_form = if v5 { F_ADDRX } else { F_GNU_ADDR_INDEX };
    let n_sub = 1 + r.usize(3);
    let n_var = r.usize(3);
    let has_lists_v5 = v5 && with.contains(&SectKind::RngLists);
    let has_loc = if v5 { with.contains(&SectKind::LocLists) } else { with.contains(&SectKind::Loc) };
    let has_line = with.contains(&SectKind::Line);
    let use_ranges_v4 = !v5 && !ranges_offsets.is_empty();

    // ---- abbreviations
    let mut ab = Asm::new(le);
    let mut cu_attrs = vec![(AT_PRODUCER, strx_form), (AT_LANGUAGE, F_DATA2), (AT_NAME, strx_form)];
    if !v5 {
        cu_attrs.push((AT_GNU_DWO_ID, F_DATA8));
    }
    if has_line {
        cu_attrs.push((AT_STMT_LIST, F_SEC_OFFSET));
    }
    abbrev_decl(&mut ab, 1, DW_TAG_COMPILE_UNIT, true, &cu_attrs);
    let mut sub_attrs = vec![(AT_NAME, strx_form), (AT_LOW_PC, addrx_form), (AT_HIGH_PC, F_DATA4)];
    if has_lists_v5 {
        sub_attrs.push((AT_RANGES, F_RNGLISTX));
    } else if use_ranges_v4 {
        sub_attrs.push((AT_RANGES, F_SEC_OFFSET));
    }
    if has_loc {
        sub_attrs.push((AT_LOCATION, if v5 { F_LOCLISTX } else { F_SEC_OFFSET }));
    }
    abbrev_decl(&mut ab, 2, DW_TAG_SUBPROGRAM, false, &sub_attrs);
    abbrev_decl(&mut ab, 3, DW_TAG_VARIABLE, false, &[(AT_NAME, F_STRING), (AT_TYPE, F_REF4), (AT_CONST_VALUE, F_SDATA)]);
    abbrev_decl(&mut ab, 4, DW_TAG_BASE_TYPE, false, &[(AT_NAME, strx_form), (AT_BYTE_SIZE, F_DATA1)]);
    let mut tu_attrs = vec![(AT_LANGUAGE, F_DATA2)];
    if has_line {
        tu_attrs.push((AT_STMT_LIST, F_SEC_OFFSET));
    }
    abbrev_decl(&mut ab, 5, DW_TAG_TYPE_UNIT, true, &tu_attrs);
    abbrev_decl(&mut ab, 6, DW_TAG_STRUCT, false, &[(AT_NAME, strx_form), (AT_BYTE_SIZE, F_DATA1)]);
    ab.u8(0);

    let emit_strx = |a: &mut Asm, form: u64, idx: u64| {
        if form == F_STRX1 {
            a.u8(idx as u8);
        } else {
            a.uleb(idx);
        }
    };

    // ---- lists (v5: rnglists/loclists with offset tables; v4: loc.dwo with GNU LLE)
    let n_lists = n_sub;
    let mut rng = Asm::new(le);
    let mut locl = Asm::new(le);
    let mut loc_offsets_v4: Vec<u64> = vec![];
    let n_addr = addresses.len() as u64;
    if has_lists_v5 {
        let lm = rng.begin_length(enc.fmt64);
        rng.u16(5).u8(enc.addr).u8(0).u32(n_lists as u32);
        let table = rng.len();
        for _ in 0..n_lists {
            rng.word(enc.fmt64, 0);
        }
        for i in 0..n_lists {
            let off = (rng.len() - table) as u64;
            rng.patch_uint(table + i * word, word, off);
            let k = 1 + r.usize(3);
            for _ in 0..k {
                match r.below(3) {
                    0 if n_addr > 0 => {
                        // DW_RLE_startx_length
                        rng.u8(3).uleb(r.below(n_addr)).uleb(1 + r.below(100));
                    }
                    1 if n_addr > 0 => {
                        // DW_RLE_base_addressx + DW_RLE_offset_pair
                        rng.u8(1).uleb(r.below(n_addr));
                        let b = r.below(50);
                        rng.u8(4).uleb(b).uleb(b + 1 + r.below(50));
                    }
                    _ => {
                        // DW_RLE_start_length
                        rng.u8(7).uint(enc.addr as usize, (0x10 + r.below(0x40)) & enc.addr_mask()).uleb(1 + r.below(10));
                    }
                }
            }
            rng.u8(0);
        }
        rng.end_length(lm);
    }
    if has_loc && v5 {
        let lm = locl.begin_length(enc.fmt64);
        locl.u16(5).u8(enc.addr).u8(0).u32(n_lists as u32);
        let table = locl.len();
        for _ in 0..n_lists {
            locl.word(enc.fmt64, 0);
        }
        for i in 0..n_lists {
            let off = (locl.len() - table) as u64;
            locl.patch_uint(table + i * word, word, off);
            let k = 1 + r.usize(3);
            for _ in 0..k {
                match r.below(3) {
                    0 if n_addr > 0 => {
                        // DW_LLE_startx_length idx len, block
                        locl.u8(3).uleb(r.below(n_addr)).uleb(1 + r.below(100));
                    }
                    1 if n_addr > 0 => {
                        locl.u8(1).uleb(r.below(n_addr));
                        let b = r.below(50);
                        locl.u8(4).uleb(b).uleb(b + 1 + r.below(50));
                    }
                    _ => {
                        // DW_LLE_start_length
                        locl.u8(8).uint(enc.addr as usize, (0x10 + r.below(0x40)) & enc.addr_mask()).uleb(1 + r.below(10));
                    }
                }
                // expression: DW_OP_regN or DW_OP_lit N; DW_OP_stack_value
                if r.bool() {
                    locl.uleb(1).u8(0x50 + r.below(32) as u8);
                } else {
                    locl.uleb(2).u8(0x30 + r.below(32) as u8).u8(0x9f);
                }
            }
            locl.u8(0);
        }
        locl.end_length(lm);
    }
    if has_loc && !v5 {
        // .debug_loc.dwo, GNU split-dwarf entries
        locl.bytes(format!("L{tag}").as_bytes());
        for _ in 0..n_lists {
            loc_offsets_v4.push(locl.len() as u64);
            let k = 1 + r.usize(3);
            for _ in 0..k {
                if n_addr > 0 {
                    // DW_LLE_GNU_start_length_entry: index, 4-byte length, 2-byte block length
                    locl.u8(3).uleb(r.below(n_addr)).u32(1 + r.below(100) as u32);
                    locl.u16(1).u8(0x50 + r.below(32) as u8);
                }
            }
            locl.u8(0);
        }
    }

    // ---- line table (header only, empty program)
    let mut line = Asm::new(le);
    if has_line {
        let lm = line.begin_length(enc.fmt64);
        line.u16(if v5 { 5 } else { 4 });
        if v5 {
            line.u8(enc.addr).u8(0);
        }
        let hl = line.len();
        line.word(enc.fmt64, 0);
        let hstart = line.len();
        line.u8(1).u8(1).u8(1).u8((-5i8) as u8).u8(14).u8(13);
        line.bytes(&[0, 1, 1, 1, 1, 0, 0, 0, 1, 0, 0, 1]);
        if v5 {
            line.u8(1).uleb(1).uleb(F_STRING);
            line.uleb(1).cstr(format!("dir{tag}").as_bytes());
            line.u8(1).uleb(1).uleb(F_STRING);
            line.uleb(1).cstr(format!("file{tag}.c").as_bytes());
        } else {
            line.cstr(format!("dir{tag}").as_bytes()).u8(0);
            line.cstr(format!("file{tag}.c").as_bytes()).uleb(1).uleb(0).uleb(0).u8(0);
        }
        let hlen = (line.len() - hstart) as u64;
        line.patch_uint(hl, word, hlen);
        line.end_length(lm);
    }

    // ---- macro sections (raw contributions, read at offset 0)
    if with.contains(&SectKind::Macinfo) && !v5 {
        let mut m = Asm::new(le);
        m.u8(1).uleb(1 + tag as u64).cstr(format!("M{tag} 1").as_bytes());
        m.u8(2).uleb(7).cstr(b"U");
        m.u8(0);
        obj.secs.insert(SectKind::Macinfo, m.buf);
    }
    if with.contains(&SectKind::Macro) {
        let mut m = Asm::new(le);
        m.u16(if v5 { 5 } else { 4 }).u8(if enc.fmt64 { 1 } else { 0 });
        m.u8(1).uleb(2 + tag as u64).cstr(format!("MACRO{tag} 42").as_bytes());
        m.u8(2).uleb(9).cstr(b"V");
        m.u8(0);
        obj.secs.insert(SectKind::Macro, m.buf);
    }

    // ---- units
    let producer = st.add(format!("gv producer {tag}").as_bytes());
    let cu_name = st.add(format!("unit{tag}.c").as_bytes());
    let base_name = st.add(b"int");
    let mut info = Asm::new(le);
    let mut types = Asm::new(le);

    // type units first or last in .debug_info (v5) / in .debug_types (v4)
    let tus_first = r.bool();
    let mut emit_tu = |info: &mut Asm, types: &mut Asm, st: &mut StrTab, obj: &mut DwoObject, sig: u64, k: usize| {
        let (a, kind): (&mut Asm, SectKind) = if v5 { (info, SectKind::Info) } else { (types, SectKind::Types) };
        let start = a.len();
        let lm = a.begin_length(enc.fmt64);
        let body0 = lm.off;
        a.u16(enc.version);
        if v5 {
            a.u8(0x06).u8(enc.addr).word(enc.fmt64, 0);
        } else {
            a.word(enc.fmt64, 0).u8(enc.addr);
        }
        a.u64(sig);
        let type_off_pos = a.len();
        a.word(enc.fmt64, 0);
        // root DIE
        a.uleb(5).u16(0x0c);
        if has_line {
            a.word(enc.fmt64, 0);
        }
        let sname = format!("S{tag}_{k}");
        let sidx = st.add(sname.as_bytes());
        let die_off = (a.len() - body0) as u64;
        a.patch_uint(type_off_pos, word, die_off);
        a.uleb(6);
        if strx_form == F_STRX1 {
            a.u8(sidx as u8);
        } else {
            a.uleb(sidx);
        }
        a.u8(8 + k as u8);
        a.u8(0);
        a.end_length(lm);
        obj.unit_pos.push((kind, start, a.len() - start));
        obj.units.push(UnitM {
            id: sig,
            is_type: true,
            dies: vec![
                DieM { depth: 0, tag: DW_TAG_TYPE_UNIT, name: None, low_pc: None },
                DieM { depth: 1, tag: DW_TAG_STRUCT, name: Some(sname.into_bytes()), low_pc: None },
            ],
        });
    };
    if tus_first {
        for (k, sig) in tu_sigs.iter().enumerate() {
            emit_tu(&mut info, &mut types, &mut st, &mut obj, *sig, k);
        }
    }
    {
        let a = &mut info;
        let start = a.len();
        let lm = a.begin_length(enc.fmt64);
        let body0 = lm.off;
        a.u16(enc.version);
        if v5 {
            a.u8(0x05).u8(enc.addr).word(enc.fmt64, 0).u64(cu_id);
        } else {
            a.word(enc.fmt64, 0).u8(enc.addr);
        }
        let mut dies = vec![];
        // CU DIE
        a.uleb(1);
        emit_strx(a, strx_form, producer);
        a.u16(0x0c);
        emit_strx(a, strx_form, cu_name);
        if !v5 {
            a.u64(cu_id);
        }
        if has_line {
            a.word(enc.fmt64, 0);
        }
        dies.push(DieM { depth: 0, tag: DW_TAG_COMPILE_UNIT, name: Some(st.names[cu_name as usize].clone()), low_pc: None });
        // base type
        let base_off = (a.len() - body0) as u64;
        a.uleb(4);
        emit_strx(a, strx_form, base_name);
        a.u8(4);
        dies.push(DieM { depth: 1, tag: DW_TAG_BASE_TYPE, name: Some(b"int".to_vec()), low_pc: None });
        for i in 0..n_sub {
            let fname = format!("fn{tag}_{i}");
            let fidx = st.add(fname.as_bytes());
            a.uleb(2);
            emit_strx(a, strx_form, fidx);
            let ai = if n_addr > 0 { r.below(n_addr) } else { 0 };
            a.uleb(ai);
            a.u32(1 + r.below(1000) as u32);
            if has_lists_v5 {
                a.uleb(i as u64);
            } else if use_ranges_v4 {
                a.word(enc.fmt64, *r.pick(ranges_offsets));
            }
            if has_loc {
                if v5 {
                    a.uleb(i as u64);
                } else {
                    a.word(enc.fmt64, loc_offsets_v4[i]);
                }
            }
            dies.push(DieM { depth: 1, tag: DW_TAG_SUBPROGRAM, name: Some(fname.into_bytes()), low_pc: addresses.get(ai as usize).copied() });
        }
        for i in 0..n_var {
            let vname = format!("var{tag}_{i}");
            a.uleb(3).cstr(vname.as_bytes()).u32(base_off as u32).sleb(r.boundary() as i64);
            dies.push(DieM { depth: 1, tag: DW_TAG_VARIABLE, name: Some(vname.into_bytes()), low_pc: None });
        }
        a.u8(0);
        a.end_length(lm);
        obj.unit_pos.push((SectKind::Info, start, a.len() - start));
        obj.units.push(UnitM { id: cu_id, is_type: false, dies });
    }
    if !tus_first {
        for (k, sig) in tu_sigs.iter().enumerate() {
            emit_tu(&mut info, &mut types, &mut st, &mut obj, *sig, k);
        }
    }

    // ---- string offsets
    let mut so = Asm::new(le);
    if v5 {
        let lm = so.begin_length(enc.fmt64);
        so.u16(5).u16(0);
        for o in &st.offsets {
            so.word(enc.fmt64, *o);
        }
        so.end_length(lm);
    } else {
        for o in &st.offsets {
            so.word(enc.fmt64, *o);
        }
    }

    obj.secs.insert(SectKind::Info, info.buf);
    if !types.buf.is_empty() {
        obj.secs.insert(SectKind::Types, types.buf);
    }
    obj.secs.insert(SectKind::Abbrev, ab.buf);
    obj.secs.insert(SectKind::StrOffsets, so.buf);
    if has_line {
        obj.secs.insert(SectKind::Line, line.buf);
    }
    if has_lists_v5 {
        obj.secs.insert(SectKind::RngLists, rng.buf);
    }
    if has_loc {
        obj.secs.insert(if v5 { SectKind::LocLists } else { SectKind::Loc }, locl.buf);
    }
    obj.str = st.bytes;
    obj
}

/// Rewrite the entries of a string-offsets contribution by adding `delta`.
fn rebase_str_offsets(bytes: &mut [u8], enc: Enc, delta: u64) {
    let word = enc.word() as usize;
    let start = if enc.version >= 5 { if enc.fmt64 { 16 } else { 8 } } else { 0 };
    let mut p = start;
    while p + word <= bytes.len() {
        let v = crate::asm::get_uint(&bytes[p..], enc.le, word).wrapping_add(delta);
        let b = v.to_le_bytes();
        for i in 0..word {
            bytes[p + i] = if enc.le { b[i] } else { b[word - 1 - i] };
        }
        p += word;
    }
}

/// Build `n_obj` objects and package them (what `dwp` does): concatenate the contributions
/// with random gaps, merge the string sections, write both indexes.
pub fn gen_package(r: &mut Rng, enc: Enc, n_obj: usize) -> Package {
    let v5 = enc.version >= 5;
    let iv: u16 = if v5 { 5 } else { 2 };
    // parent file: .debug_addr (+ .debug_ranges for v4)
    let n_addr = 1 + r.usize(12);
    let addresses: Vec<u64> = (0..n_addr).map(|_| (0x1000 + r.below(0x10_0000)) & enc.addr_mask() & !0x80).collect();
    let mut pa = Asm::new(enc.le);
    let parent_addr_base;
    if v5 {
        let lm = pa.begin_length(enc.fmt64);
        pa.u16(5).u8(enc.addr).u8(0);
        parent_addr_base = pa.len() as u64;
        for x in &addresses {
            pa.uint(enc.addr as usize, *x);
        }
        pa.end_length(lm);
    } else {
        parent_addr_base = 0;
        for x in &addresses {
            pa.uint(enc.addr as usize, *x);
        }
    }
    let mut pr = Asm::new(enc.le);
    let mut ranges_offsets = vec![];
    if !v5 {
        pr.bytes(&[0xff; 3]);
        for _ in 0..3 {
            // lists are placed at any offset
            ranges_offsets.push(pr.len() as u64);
            for _ in 0..1 + r.usize(3) {
                let b = (1 + r.below(60)) & enc.addr_mask();
                pr.uint(enc.addr as usize, b).uint(enc.addr as usize, (b + 1 + r.below(60)) & enc.addr_mask());
            }
            pr.uint(enc.addr as usize, 0).uint(enc.addr as usize, 0);
        }
    }
    // which optional sections do the objects carry
    let mut with: BTreeSet<SectKind> = BTreeSet::new();
    for k in SectKind::all_for(iv) {
        if matches!(k, SectKind::Info | SectKind::Types | SectKind::Abbrev | SectKind::StrOffsets) || r.chance(3, 4) {
            with.insert(k);
        }
    }
    // ids: distinct, non-zero; sometimes colliding in the hash table
    let mut objects = vec![];
    let collide = r.chance(1, 3);
    let mut used: BTreeSet<u64> = BTreeSet::new();
    let mut fresh = |r: &mut Rng, used: &mut BTreeSet<u64>| loop {
        let k = if collide { (r.next() & !0xff_0000_00ffu64) | 0x05 } else { r.next() };
        if k != 0 && used.insert(k) {
            return k;
        }
    };
    for t in 0..n_obj {
        let cu_id = fresh(r, &mut used);
        let n_tu = r.usize(3);
        let sigs: Vec<u64> = (0..n_tu).map(|_| fresh(r, &mut used)).collect();
        objects.push(gen_dwo_object(r, enc, t, cu_id, &sigs, &addresses, &ranges_offsets, &with));
    }
    // ---- package sections
    let kinds: Vec<SectKind> = SectKind::all_for(iv).into_iter().filter(|k| objects.iter().any(|o| o.secs.contains_key(k))).collect();
    let mut secs: BTreeMap<SectKind, Vec<u8>> = BTreeMap::new();
    let mut pstr: Vec<u8> = vec![];
    // cu columns: every kind except Types; tu columns: Info(v5)/Types(v2), Abbrev, Line, StrOffsets
    let mut cu_cols: Vec<SectKind> = kinds.iter().copied().filter(|k| *k != SectKind::Types).collect();
    let mut tu_cols: Vec<SectKind> = kinds
        .iter()
        .copied()
        .filter(|k| matches!(k, SectKind::Abbrev | SectKind::Line | SectKind::StrOffsets) || *k == if v5 { SectKind::Info } else { SectKind::Types })
        .collect();
    r.shuffle(&mut cu_cols);
    r.shuffle(&mut tu_cols);
    let n_cu = objects.len();
    let n_tu: usize = objects.iter().map(|o| o.units.iter().filter(|u| u.is_type).count()).sum();
    let slots_for = |n: usize, r: &mut Rng| {
        let mut s = 1usize;
        while s <= n {
            s *= 2;
        }
        if r.chance(1, 3) {
            s *= 2;
        }
        s
    };
    let mut cu_index = UnitIndexM::new(iv, cu_cols.clone(), slots_for(n_cu, r));
    let mut tu_index = UnitIndexM::new(iv, tu_cols.clone(), if n_tu == 0 && r.bool() { 0 } else { slots_for(n_tu, r) });
    let mut order: Vec<usize> = (0..n_obj).collect();
    r.shuffle(&mut order);
    for &oi in &order {
        let obj = &objects[oi];
        // whole-section contributions of this object
        let mut contrib: BTreeMap<SectKind, (u32, u32)> = BTreeMap::new();
        let str_base = pstr.len() as u64;
        pstr.extend_from_slice(&obj.str);
        for (k, bytes) in &obj.secs {
            let dst = secs.entry(*k).or_default();
            let gap = r.usize(4);
            for _ in 0..gap {
                dst.push(0xcc);
            }
            let off = dst.len();
            let mut b = bytes.clone();
            if *k == SectKind::StrOffsets {
                rebase_str_offsets(&mut b, enc, str_base);
            }
            dst.extend_from_slice(&b);
            contrib.insert(*k, (off as u32, bytes.len() as u32));
        }
        for (ui, u) in obj.units.iter().enumerate() {
            let (ukind, uoff, usize_) = obj.unit_pos[ui];
            let cols = if u.is_type { &tu_cols } else { &cu_cols };
            let mut row = vec![];
            for c in cols {
                if *c == ukind {
                    let base = contrib[&ukind].0;
                    row.push((base + uoff as u32, usize_ as u32));
                } else if let Some(x) = contrib.get(c) {
                    // a type unit uses the object's abbrev / line / str_offsets contributions
                    row.push(*x);
                } else {
                    row.push((0, 0));
                }
            }
            let idx = if u.is_type { &mut tu_index } else { &mut cu_index };
            idx.rows.push(row);
            let rown = idx.rows.len() as u32;
            idx.insert(u.id, rown);
        }
    }
    Package {
        enc,
        objects,
        secs,
        str: pstr,
        cu_index,
        tu_index,
        parent_addr: pa.buf,
        parent_addr_base,
        parent_ranges: pr.buf,
        addresses,
    }
}

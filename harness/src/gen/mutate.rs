//! Structure-agnostic and field-map-driven mutations of valid sections.
//!
//! Mutation index space for a byte string of length L (all deterministic):
//!   [0, L]                      truncation to k bytes (k = L is the identity)
//!   then 5 * L                  single byte substitution over {0, 1, 0x7f, 0x80, 0xff}
//!   then PATTERNS * L           in-place injection of an extreme integer / LEB128 at an offset

use crate::asm::{sleb_bytes, uleb_bytes, Field, FieldKind};
use crate::rt::Rng;

pub const SUBST: [u8; 5] = [0, 1, 0x7f, 0x80, 0xff];

pub fn patterns() -> Vec<Vec<u8>> {
    let mut v: Vec<Vec<u8>> = vec![];
    for x in [0xffffu16, 0x8000, 0xfff0] {
        v.push(x.to_le_bytes().to_vec());
        v.push(x.to_be_bytes().to_vec());
    }
    for x in [0xffff_ffffu32, 0x8000_0000, 0xffff_fff0, 0x7fff_ffff] {
        v.push(x.to_le_bytes().to_vec());
        v.push(x.to_be_bytes().to_vec());
    }
    for x in [1u64 << 61, 1 << 63, u64::MAX, 0x7fff_ffff_ffff_ffff, u64::MAX - 1] {
        v.push(x.to_le_bytes().to_vec());
        v.push(x.to_be_bytes().to_vec());
    }
    for x in [1u64 << 61, 1 << 63, u64::MAX, 0xffff_ffff, 1 << 32] {
        v.push(uleb_bytes(x));
    }
    v.push(sleb_bytes(i64::MIN));
    v.push(sleb_bytes(i64::MAX));
    v.push(sleb_bytes(-1));
    v.push(vec![0x80, 0x80, 0x80, 0x80, 0x80, 0x80, 0x80, 0x80, 0x80, 0x01]);
    v.push(vec![0xff; 12]);
    v
}

pub fn count(len: usize) -> u64 {
    let l = len as u64;
    (l + 1) + 5 * l + patterns().len() as u64 * l
}

/// The k-th mutation of `b` (k < count(b.len())).
pub fn nth(b: &[u8], k: u64) -> (Vec<u8>, String) {
    let l = b.len() as u64;
    if k <= l {
        return (b[..k as usize].to_vec(), format!("truncate@{k}"));
    }
    let k = k - (l + 1);
    if k < 5 * l {
        let off = (k / 5) as usize;
        let v = SUBST[(k % 5) as usize];
        let mut o = b.to_vec();
        o[off] = v;
        return (o, format!("byte@{off}={v:#x}"));
    }
    let k = k - 5 * l;
    let pats = patterns();
    let off = (k / pats.len() as u64) as usize;
    let p = &pats[(k % pats.len() as u64) as usize];
    let mut o = b.to_vec();
    for (i, x) in p.iter().enumerate() {
        if off + i < o.len() {
            o[off + i] = *x;
        }
    }
    (o, format!("inject@{off}:{}", crate::rt::hex(p)))
}

/// Splice: prefix of `a` up to a random point followed by a suffix of `b`.
pub fn splice(a: &[u8], b: &[u8], r: &mut Rng) -> Vec<u8> {
    let i = r.usize(a.len() + 1);
    let j = r.usize(b.len() + 1);
    let mut o = a[..i].to_vec();
    o.extend_from_slice(&b[j..]);
    o
}

/// Field-map-driven mutations: every field replaced by each hostile value of its kind,
/// and truncation at every field boundary +-1.
pub fn field_mutations(b: &[u8], fields: &[Field], le: bool) -> Vec<(Vec<u8>, String)> {
    let mut out = vec![];
    for f in fields {
        if f.off + f.len > b.len() {
            continue;
        }
        match f.kind {
            FieldKind::Uleb | FieldKind::Sleb => {
                for leb in crate::asm::hostile_lebs() {
                    let mut o = b[..f.off].to_vec();
                    o.extend_from_slice(&leb);
                    o.extend_from_slice(&b[f.off + f.len..]);
                    out.push((o, format!("field {}@{} := leb {}", f.name, f.off, crate::rt::hex(&leb))));
                }
            }
            FieldKind::Str | FieldKind::Data => {}
            _ => {
                if f.len <= 8 && f.len > 0 {
                    for v in crate::asm::hostile_values(f.kind, f.len) {
                        let mut o = b.to_vec();
                        let bytes = v.to_le_bytes();
                        for i in 0..f.len {
                            o[f.off + i] = if le { bytes[i] } else { bytes[f.len - 1 - i] };
                        }
                        out.push((o, format!("field {}@{} := {v:#x}", f.name, f.off)));
                    }
                }
            }
        }
        for cut in [f.off.saturating_sub(1), f.off, f.off + 1, f.off + f.len] {
            if cut <= b.len() {
                out.push((b[..cut].to_vec(), format!("truncate at field {}@{}", f.name, cut)));
            }
        }
    }
    out
}

fn looks_like_leb(b: &[u8]) -> bool {
    !b.is_empty() && b.len() <= 10 && b[..b.len() - 1].iter().all(|x| x & 0x80 != 0) && b[b.len() - 1] & 0x80 == 0
}

/// Value of a `Length` field: fixed width 1/2/4/8, a 12-byte 64-bit initial length, or one
/// LEB128 number.  Returns (value, offset of the value bytes inside the field, width, is_leb).
fn length_value(b: &[u8], f: &Field, le: bool) -> Option<(u64, usize, usize, bool)> {
    let cur = b.get(f.off..f.off + f.len)?;
    match f.len {
        12 if cur[..4] == [0xff; 4] => Some((crate::asm::get_uint(&cur[4..], le, 8), 4, 8, false)),
        // one byte: the same value as a fixed-width field and as a LEB128; written back only below 0x80
        1 => Some((cur[0] as u64, 0, 1, true)),
        2 | 4 | 8 => Some((crate::asm::get_uint(cur, le, f.len), 0, f.len, false)),
        _ if looks_like_leb(cur) => {
            let mut v: u64 = 0;
            for (i, x) in cur.iter().enumerate() {
                if i < 10 {
                    v |= ((x & 0x7f) as u64).checked_shl(7 * i as u32).unwrap_or(0);
                }
            }
            Some((v, 0, f.len, true))
        }
        _ => None,
    }
}

/// Replace `b[off..off + old_len]` by `new`.  When the length changes, every `Length` field
/// in front of `off` whose byte count covers the replaced range (unit lengths, header
/// lengths, extended-opcode and block lengths) is adjusted by the difference, so that the
/// surrounding structure stays consistent and the mutated part is actually reached.
fn replace_fixup(b: &[u8], fields: &[Field], le: bool, off: usize, old_len: usize, new: &[u8]) -> Vec<u8> {
    let mut o = b[..off].to_vec();
    o.extend_from_slice(new);
    o.extend_from_slice(&b[off + old_len..]);
    let delta = new.len() as i64 - old_len as i64;
    if delta == 0 {
        return o;
    }
    for f in fields {
        if f.kind != FieldKind::Length || f.off + f.len > off {
            continue;
        }
        let Some((v, voff, width, is_leb)) = length_value(b, f, le) else { continue };
        let fend = (f.off + f.len) as u64;
        if (off as u64) < fend || (off + old_len) as u64 > fend.saturating_add(v) {
            continue;
        }
        let Some(nv) = (v as i64).checked_add(delta).filter(|x| *x >= 0).map(|x| x as u64) else { continue };
        if is_leb {
            if crate::asm::uleb_bytes(nv).len() <= width {
                let nb = crate::asm::uleb_padded(nv, width);
                o[f.off..f.off + width].copy_from_slice(&nb);
            }
        } else if width >= 8 || nv < (1u64 << (8 * width as u32)) {
            let bytes = nv.to_le_bytes();
            for i in 0..width {
                o[f.off + voff + i] = if le { bytes[i] } else { bytes[width - 1 - i] };
            }
        }
    }
    o
}

/// Structure-aware mutations used by C01 (superset of `field_mutations`, which is left
/// unchanged for its other users):
/// * every field of at most 8 bytes that is not a string: each fixed-width hostile value of
///   its kind in the section's byte order (also `Data` fields);
/// * `Uleb` / `Sleb` fields, and fields of kind Length / Count / Index / Form / Other / Offset
///   whose bytes form exactly one LEB128 number (the field map does not say whether such a
///   field is fixed-width or LEB128-encoded): each hostile LEB128 string (may change the length);
/// * `Str` fields: emptied, cut to one byte, NUL in the middle, terminator removed;
/// * any field of 2..=64 bytes: deleted, duplicated;
/// * truncation at every field boundary +-1.
/// Length-changing replacements adjust the enclosing length fields (see `replace_fixup`).
pub fn field_mutations_ext(b: &[u8], fields: &[Field], le: bool) -> Vec<(Vec<u8>, String)> {
    let mut out = vec![];
    for f in fields {
        let end = f.off + f.len;
        if end > b.len() {
            continue;
        }
        let cur = &b[f.off..end];
        let lebs = |out: &mut Vec<(Vec<u8>, String)>| {
            for leb in crate::asm::hostile_lebs() {
                out.push((replace_fixup(b, fields, le, f.off, f.len, &leb), format!("field {}@{} := leb {}", f.name, f.off, crate::rt::hex(&leb))));
            }
        };
        let fixed = |out: &mut Vec<(Vec<u8>, String)>| {
            if f.len <= 8 && f.len > 0 {
                for v in crate::asm::hostile_values(f.kind, f.len) {
                    let mut o = b.to_vec();
                    let bytes = v.to_le_bytes();
                    for i in 0..f.len {
                        o[f.off + i] = if le { bytes[i] } else { bytes[f.len - 1 - i] };
                    }
                    out.push((o, format!("field {}@{} := {v:#x}", f.name, f.off)));
                }
            }
        };
        match f.kind {
            FieldKind::Uleb | FieldKind::Sleb => lebs(&mut out),
            FieldKind::Str => {
                if f.len > 0 {
                    out.push((replace_fixup(b, fields, le, f.off, f.len, &[]), format!("string {}@{} emptied", f.name, f.off)));
                }
                if f.len > 1 {
                    out.push((replace_fixup(b, fields, le, f.off, f.len, &cur[..1]), format!("string {}@{} cut to 1 byte", f.name, f.off)));
                    let mut o = b.to_vec();
                    o[f.off + f.len / 2] = 0;
                    out.push((o, format!("string {}@{} NUL in the middle", f.name, f.off)));
                }
                if let Some(p) = b[f.off..].iter().position(|x| *x == 0) {
                    let mut o = b.to_vec();
                    o[f.off + p] = b'A';
                    out.push((o, format!("string {}@{} terminator removed", f.name, f.off)));
                }
            }
            FieldKind::Length | FieldKind::Count | FieldKind::Index | FieldKind::Form | FieldKind::Other | FieldKind::Offset => {
                fixed(&mut out);
                if looks_like_leb(cur) {
                    lebs(&mut out);
                }
            }
            _ => fixed(&mut out),
        }
        if (2..=64).contains(&f.len) {
            out.push((replace_fixup(b, fields, le, f.off, f.len, &[]), format!("field {}@{} deleted", f.name, f.off)));
            let mut twice = cur.to_vec();
            twice.extend_from_slice(cur);
            out.push((replace_fixup(b, fields, le, f.off, f.len, &twice), format!("field {}@{} duplicated", f.name, f.off)));
        }
        for cut in [f.off.saturating_sub(1), f.off, f.off + 1, f.off + f.len] {
            if cut <= b.len() {
                out.push((b[..cut].to_vec(), format!("truncate at field {}@{}", f.name, cut)));
            }
        }
    }
    out
}

//! Expression program generators (C07): the alphabets of the exhaustive short-program
//! enumeration, a snippet-based random program generator (typed operations, loops,
//! branches of every target kind, calls, entry values, composite locations with every
//! piece-termination order), operand tails for the decode catalogue, and scripted answer
//! streams for every `EvaluationResult::Requires*`.
//!
//! Everything is emitted with the byte assembler; nothing here uses gimli.

use crate::asm::{sleb_bytes, uleb_bytes, uleb_padded, Asm, Enc};
use crate::model::expr::{Ans, Req, Ty, ALL_TYPES};
use crate::rt::{mix64, Rng, EXTREMES};

// ------------------------------------------------------------------ single operations

pub fn enc_op(enc: Enc, f: impl FnOnce(&mut Asm)) -> Vec<u8> {
    let mut a = Asm::new(enc.le);
    a.map = false;
    f(&mut a);
    a.buf
}

/// The alphabet (48 items) of the exhaustive enumeration of programs of length <= 3.
pub fn alphabet46(enc: Enc) -> Vec<(&'static str, Vec<u8>)> {
    let mut v: Vec<(&'static str, Vec<u8>)> = vec![];
    // all no-operand arithmetic / logic / shift / compare / stack operations
    for (n, o) in [
        ("dup", 0x12u8),
        ("drop", 0x13),
        ("over", 0x14),
        ("swap", 0x16),
        ("rot", 0x17),
        ("abs", 0x19),
        ("and", 0x1a),
        ("div", 0x1b),
        ("minus", 0x1c),
        ("mod", 0x1d),
        ("mul", 0x1e),
        ("neg", 0x1f),
        ("not", 0x20),
        ("or", 0x21),
        ("plus", 0x22),
        ("shl", 0x24),
        ("shr", 0x25),
        ("shra", 0x26),
        ("xor", 0x27),
        ("eq", 0x29),
        ("ge", 0x2a),
        ("gt", 0x2b),
        ("le", 0x2c),
        ("lt", 0x2d),
        ("ne", 0x2e),
        ("lit0", 0x30),
        ("lit1", 0x31),
        ("lit31", 0x4f),
        ("nop", 0x96),
        ("stack_value", 0x9f),
        ("reg0", 0x50),
    ] {
        v.push((n, vec![o]));
    }
    v.push(("const1u 0x80", vec![0x08, 0x80]));
    v.push(("const8u min-signed", enc_op(enc, |a| {
        a.u8(0x0e).u64(1u64 << (8 * enc.addr as u32 - 1));
    })));
    v.push(("constu mask", enc_op(enc, |a| {
        a.u8(0x10).uleb(enc.addr_mask());
    })));
    v.push(("consts -1", vec![0x11, 0x7f]));
    v.push(("pick 2", vec![0x15, 2]));
    v.push(("skip +1", enc_op(enc, |a| {
        a.u8(0x2f).u16(1);
    })));
    v.push(("bra -3", enc_op(enc, |a| {
        a.u8(0x28).u16(0xfffd);
    })));
    v.push(("piece 4", vec![0x93, 4]));
    // beyond the 41 named in DESIGN.md: a few that exercise widths and counts
    v.push(("lit8", vec![0x38]));
    v.push(("const1u 7", vec![0x08, 7]));
    v.push(("plus_uconst mask", enc_op(enc, |a| {
        a.u8(0x23).uleb(enc.addr_mask());
    })));
    v.push(("const4u 0xfffffffe", enc_op(enc, |a| {
        a.u8(0x0c).u32(0xffff_fffe);
    })));
    v.push(("const2s -2", enc_op(enc, |a| {
        a.u8(0x0b).u16(0xfffe);
    })));
    v.push(("const1u 0x20", vec![0x08, 0x20]));
    v.push(("const1u 0x40", vec![0x08, 0x40]));
    v.push(("lit16", vec![0x40]));
    v.push(("lit15", vec![0x3f]));
    v
}

/// The 20-item alphabet of the exhaustive enumeration of programs of length 4.
pub fn alphabet20(enc: Enc) -> Vec<(&'static str, Vec<u8>)> {
    let all = alphabet46(enc);
    let pickn = |n: &str| all.iter().find(|x| x.0 == n).cloned().unwrap();
    [
        "dup", "swap", "rot", "div", "minus", "mod", "mul", "neg", "shl", "shr", "shra", "lt", "lit1", "lit31", "const8u min-signed", "consts -1", "bra -3", "stack_value", "piece 4",
        "reg0",
    ]
    .iter()
    .map(|n| pickn(n))
    .collect()
}

// ------------------------------------------------------------------ answer scripts

/// The base-type DIE at unit offset `o` has type `ALL_TYPES[o % 11]` (0 = generic).
pub fn type_of_base(o: u64) -> Ty {
    ALL_TYPES[(o % 11) as usize]
}

/// A unit offset whose base type is `t` (small or large).
pub fn base_of_type(t: Ty, r: &mut Rng) -> u64 {
    let i = ALL_TYPES.iter().position(|x| *x == t).unwrap() as u64;
    match r.below(8) {
        0 => i + 11 * r.below(1000),
        1 => i + 11 * ((1u64 << 40) / 11),
        _ => i + if i == 0 { 0 } else { 11 * r.below(3) },
    }
}

pub const FLOATS32: &[f32] = &[0.0, -0.0, 1.0, -1.0, 1.5, -2.5, 3.0, 7.0, 100.25, 1e10, -1e10, 3e38, f32::MAX, f32::MIN_POSITIVE, f32::INFINITY, f32::NEG_INFINITY, f32::NAN, 255.0, 256.0, 65535.9, 2147483648.0, -129.0];
pub const FLOATS64: &[f64] = &[0.0, -0.0, 1.0, -1.0, 1.5, -2.5, 3.0, 7.0, 100.25, 1e10, -1e10, 1e300, f64::MAX, f64::MIN_POSITIVE, f64::INFINITY, f64::NEG_INFINITY, f64::NAN, 255.0, 256.0, 4294967295.5, 9223372036854775808.0, 18446744073709551616.0, -32769.0];

/// Raw bits of an interesting value of type `t`.
pub fn value_bits(t: Ty, r: &mut Rng) -> u64 {
    match t {
        Ty::F32 => {
            if r.chance(3, 4) {
                r.pick(FLOATS32).to_bits() as u64
            } else {
                r.next() as u32 as u64
            }
        }
        Ty::F64 => {
            if r.chance(3, 4) {
                r.pick(FLOATS64).to_bits()
            } else {
                r.next()
            }
        }
        _ => r.boundary(),
    }
}

/// Scripted answers: the answer to the i-th request is a pure function of
/// `(seed, i, request)`, so the model and the evaluator under test receive the same
/// answers as long as they ask the same questions.
#[derive(Clone, Debug)]
pub struct Script {
    pub seed: u64,
    /// `pool[0]` is the empty expression
    pub pool: Vec<Vec<u8>>,
    /// probability (in 1/16) that a typed request is answered with a value of another type
    pub hostile16: u64,
}

impl Script {
    pub fn answer(&self, idx: usize, req: &Req) -> Ans {
        let mut r = Rng::new(mix64(self.seed ^ (idx as u64).wrapping_mul(0x9e37_79b9_7f4a_7c15)));
        let typed = |r: &mut Rng, base: u64, hostile16: u64| -> Ans {
            let t = if r.below(16) < hostile16 { *r.pick(&ALL_TYPES) } else { type_of_base(base) };
            Ans::Value(t, value_bits(t, r))
        };
        match req {
            Req::Memory { base_type, .. } => typed(&mut r, *base_type, self.hostile16),
            Req::Register { base_type, .. } => typed(&mut r, *base_type, self.hostile16),
            Req::EntryValue(_) | Req::WasmLocal(_) | Req::WasmGlobal(_) | Req::WasmStack(_) => {
                let t = if r.chance(1, 2) { Ty::Generic } else { *r.pick(&ALL_TYPES) };
                Ans::Value(t, value_bits(t, &mut r))
            }
            Req::FrameBase | Req::Tls(_) | Req::Cfa | Req::ParameterRef(_) | Req::RelocatedAddress(_) | Req::IndexedAddress { .. } => Ans::Word(r.boundary()),
            Req::AtLocation(_) => Ans::Expr(r.usize(self.pool.len().max(1))),
            Req::BaseType(o) => Ans::Type(if r.below(16) < self.hostile16 { *r.pick(&ALL_TYPES) } else { type_of_base(*o) }),
        }
    }
}

// ------------------------------------------------------------------ random programs

#[derive(Clone, Debug)]
enum Target {
    /// start of item `i` (i == number of items: the end of the expression)
    Item(usize),
    End,
    /// `k` bytes past the end
    PastEnd(u16),
    /// into the middle of item `i` (if it has operands), else its start
    Mid(usize),
    /// before the start of the expression
    Negative,
    /// raw displacement
    Raw(i16),
}

#[derive(Clone, Debug)]
struct Item {
    bytes: Vec<u8>,
    /// for bra / skip: where the 2-byte displacement (at bytes[1..3]) should point
    target: Option<Target>,
}

pub struct Builder<'r> {
    pub enc: Enc,
    items: Vec<Item>,
    r: &'r mut Rng,
    /// lower bound of the number of values on the stack, all generic unless `typed_top`
    depth: usize,
    typed_top: bool,
    /// nesting budget for entry_value sub-expressions
    level: u32,
}

const BIN_OPS: &[u8] = &[0x1a, 0x1b, 0x1c, 0x1d, 0x1e, 0x21, 0x22, 0x24, 0x25, 0x26, 0x27, 0x29, 0x2a, 0x2b, 0x2c, 0x2d, 0x2e];
const UN_OPS: &[u8] = &[0x19, 0x1f, 0x20];

impl<'r> Builder<'r> {
    pub fn new(enc: Enc, r: &'r mut Rng, level: u32) -> Builder<'r> {
        Builder { enc, items: vec![], r, depth: 0, typed_top: false, level }
    }
    fn raw(&mut self, bytes: Vec<u8>) {
        self.items.push(Item { bytes, target: None });
    }
    fn op(&mut self, f: impl FnOnce(&mut Asm)) {
        let b = enc_op(self.enc, f);
        self.raw(b);
    }
    fn uleb_any(&mut self, v: u64) -> Vec<u8> {
        // canonical, or padded up to 10 bytes
        if self.r.chance(1, 8) {
            let n = uleb_bytes(v).len();
            let m = n + self.r.usize(10 - n + 1);
            uleb_padded(v, m.min(10))
        } else {
            uleb_bytes(v)
        }
    }
    /// A value interesting at the address width.
    fn word(&mut self) -> u64 {
        let mask = self.enc.addr_mask();
        let bits = 8 * self.enc.addr as u32;
        match self.r.below(12) {
            0 => 0,
            1 => 1,
            2 => mask,
            3 => mask >> 1,
            4 => (mask >> 1) + 1,
            5 => mask - 1,
            6 => self.r.below(bits as u64 + 3),
            7 => self.r.below(300),
            8 => self.r.boundary() & mask,
            // deliberately wider than the address size
            9 => self.r.boundary(),
            10 => (1u64 << self.r.below(bits as u64)) & mask,
            _ => self.r.next() & mask,
        }
    }
    /// Push the generic constant `v` with a randomly chosen encoding.
    pub fn push_const(&mut self, v: u64) {
        let enc = self.enc;
        let mut choices: Vec<u8> = vec![0x10, 0x0e];
        if v < 32 {
            choices.extend_from_slice(&[0x30, 0x30, 0x30]);
        }
        if v < 0x100 {
            choices.push(0x08);
        }
        if v < 0x1_0000 {
            choices.push(0x0a);
        }
        if v < 0x1_0000_0000 {
            choices.push(0x0c);
        }
        let s = v as i64;
        choices.push(0x11);
        choices.push(0x0f);
        if s >= -128 && s < 128 {
            choices.push(0x09);
        }
        if s >= -32768 && s < 32768 {
            choices.push(0x0b);
        }
        if s >= i32::MIN as i64 && s <= i32::MAX as i64 {
            choices.push(0x0d);
        }
        // a negative constant of the address width: sign-extended forms are equivalent
        let c = *self.r.pick(&choices);
        let ul = self.uleb_any(v);
        let b = enc_op(enc, |a| {
            match c {
                0x30 => {
                    a.u8(0x30 + v as u8);
                }
                0x08 => {
                    a.u8(c).u8(v as u8);
                }
                0x0a => {
                    a.u8(c).u16(v as u16);
                }
                0x0c => {
                    a.u8(c).u32(v as u32);
                }
                0x0e => {
                    a.u8(c).u64(v);
                }
                0x10 => {
                    a.u8(c).bytes(&ul);
                }
                0x11 => {
                    a.u8(c).sleb(s);
                }
                0x09 => {
                    a.u8(c).u8(s as u8);
                }
                0x0b => {
                    a.u8(c).u16(s as u16);
                }
                0x0d => {
                    a.u8(c).u32(s as u32);
                }
                _ => {
                    a.u8(0x0f).u64(v);
                }
            };
        });
        self.raw(b);
        self.depth += 1;
        self.typed_top = false;
    }
    fn push_word(&mut self) {
        let v = self.word();
        self.push_const(v);
    }
    fn typed_bytes(&mut self, t: Ty) -> Vec<u8> {
        let bits = value_bits(t, self.r);
        let n = (t.bits(self.enc.addr) / 8) as usize;
        let mut a = Asm::new(self.enc.le);
        a.uint(n, bits);
        a.buf
    }
    fn a_type(&mut self) -> Ty {
        *self.r.pick(&ALL_TYPES[1..])
    }
    /// const_type T <value>
    fn push_typed(&mut self, t: Ty) {
        let gnu = self.r.chance(1, 6);
        let base = base_of_type(t, self.r);
        let mut data = self.typed_bytes(t);
        match self.r.below(24) {
            0 => {
                data.pop();
            }
            1 => data.push(0xaa),
            _ => {}
        }
        let ul = self.uleb_any(base);
        self.op(|a| {
            a.u8(if gnu { 0xf4 } else { 0xa4 }).bytes(&ul).u8(data.len() as u8).bytes(&data);
        });
        self.depth += 1;
        self.typed_top = true;
    }
    fn convert_to(&mut self, t: Ty) {
        let gnu = self.r.chance(1, 6);
        let base = base_of_type(t, self.r);
        self.op(|a| {
            a.u8(if gnu { 0xf7 } else { 0xa8 }).uleb(base);
        });
        self.typed_top = t != Ty::Generic;
    }
    fn reinterpret_to(&mut self, t: Ty) {
        let gnu = self.r.chance(1, 6);
        let base = base_of_type(t, self.r);
        self.op(|a| {
            a.u8(if gnu { 0xf9 } else { 0xa9 }).uleb(base);
        });
        self.typed_top = t != Ty::Generic;
    }
    fn reg_num(&mut self) -> u64 {
        match self.r.below(8) {
            0 => 65535,
            1 => 65536,
            2 => self.r.boundary(),
            3 => 32 + self.r.below(200),
            _ => self.r.below(32),
        }
    }
    fn sub_expression(&mut self, max_items: usize) -> Vec<u8> {
        if self.level == 0 {
            return vec![0x30 + self.r.below(32) as u8];
        }
        let mut sub_rng = Rng::new(self.r.next());
        let mut b = Builder::new(self.enc, &mut sub_rng, self.level - 1);
        let n = 1 + b.r.usize(max_items);
        for _ in 0..n {
            b.snippet();
        }
        b.finish().0
    }

    /// One request operation that pushes a value.
    fn request_snippet(&mut self) {
        let k = self.r.below(22);
        match k {
            0 => {
                let off = self.r.boundary() as i64;
                let small = self.r.irange(-300, 300);
                let o = if self.r.bool() { off } else { small };
                self.op(|a| {
                    a.u8(0x91).sleb(o);
                });
            }
            1 | 2 => {
                let n = self.r.below(32) as u8;
                let off = if self.r.bool() { self.r.boundary() as i64 } else { self.r.irange(-300, 300) };
                self.op(|a| {
                    a.u8(0x70 + n).sleb(off);
                });
            }
            3 => {
                let reg = self.reg_num();
                let off = self.r.irange(-70000, 70000);
                self.op(|a| {
                    a.u8(0x92).uleb(reg).sleb(off);
                });
            }
            4 => self.op(|a| {
                a.u8(0x9c);
            }),
            5 => {
                let v = self.r.boundary() & self.enc.addr_mask();
                let n = self.enc.addr as usize;
                self.op(|a| {
                    a.u8(0x03).uint(n, v);
                });
            }
            6 => {
                let v = self.r.boundary();
                let o = *self.r.pick(&[0xa1u8, 0xfb, 0xa2, 0xfc]);
                self.op(|a| {
                    a.u8(o).uleb(v);
                });
            }
            7 => {
                let v = self.r.boundary() as u32;
                self.op(|a| {
                    a.u8(0xfa).u32(v);
                });
            }
            8 => self.op(|a| {
                a.u8(0x97);
            }),
            9 | 10 => {
                // deref family on a pushed address
                self.push_word();
                self.depth -= 1;
                let size = match self.r.below(6) {
                    0 => self.enc.addr + 1,
                    1 => 0,
                    2 => 0xff,
                    _ => 1 + self.r.below(self.enc.addr as u64) as u8,
                };
                match self.r.below(3) {
                    0 => self.op(|a| {
                        a.u8(0x06);
                    }),
                    1 => self.op(|a| {
                        a.u8(0x94).u8(size);
                    }),
                    _ => {
                        let t = *self.r.pick(&ALL_TYPES);
                        let base = base_of_type(t, self.r);
                        let gnu = self.r.chance(1, 4);
                        self.op(|a| {
                            a.u8(if gnu { 0xf6 } else { 0xa6 }).u8(size).uleb(base);
                        });
                        self.typed_top = t != Ty::Generic;
                    }
                }
            }
            11 => {
                // xderef family: space then address
                self.push_word();
                self.push_word();
                self.depth -= 2;
                let size = if self.r.chance(1, 5) { self.enc.addr + 1 } else { 1 + self.r.below(self.enc.addr as u64) as u8 };
                match self.r.below(3) {
                    0 => self.op(|a| {
                        a.u8(0x18);
                    }),
                    1 => self.op(|a| {
                        a.u8(0x95).u8(size);
                    }),
                    _ => {
                        let t = *self.r.pick(&ALL_TYPES);
                        let base = base_of_type(t, self.r);
                        self.op(|a| {
                            a.u8(0xa7).u8(size).uleb(base);
                        });
                        self.typed_top = t != Ty::Generic;
                    }
                }
            }
            12 => {
                self.push_word();
                self.depth -= 1;
                let o = if self.r.bool() { 0x9b } else { 0xe0 };
                self.op(|a| {
                    a.u8(o);
                });
            }
            13 | 14 => {
                // regval_type
                let t = *self.r.pick(&ALL_TYPES);
                let base = base_of_type(t, self.r);
                let reg = self.reg_num();
                let gnu = self.r.chance(1, 4);
                self.op(|a| {
                    a.u8(if gnu { 0xf5 } else { 0xa5 }).uleb(reg).uleb(base);
                });
                self.typed_top = t != Ty::Generic;
            }
            15 | 16 => {
                let sub = self.sub_expression(3);
                let gnu = self.r.chance(1, 4);
                self.op(|a| {
                    a.u8(if gnu { 0xf3 } else { 0xa3 }).uleb(sub.len() as u64).bytes(&sub);
                });
                // the answer may be of any type
                self.typed_top = true;
            }
            17 => {
                let kind = self.r.below(4) as u8;
                let idx = self.r.boundary();
                self.op(|a| {
                    a.u8(0xed).u8(kind);
                    if kind == 3 {
                        a.u32(idx as u32);
                    } else {
                        a.uleb(idx & 0xffff_ffff);
                    }
                });
                self.typed_top = true;
            }
            _ => {
                // calls: the callee may push anything (or nothing)
                let v = self.r.boundary();
                let fmt64 = self.enc.fmt64;
                match self.r.below(3) {
                    0 => self.op(|a| {
                        a.u8(0x98).u16(v as u16);
                    }),
                    1 => self.op(|a| {
                        a.u8(0x99).u32(v as u32);
                    }),
                    _ => self.op(|a| {
                        a.u8(0x9a).word(fmt64, v);
                    }),
                }
                // unknown effect on the stack
                return;
            }
        }
        self.depth += 1;
        if !matches!(k, 9 | 10 | 11 | 13 | 14 | 15 | 16 | 17) {
            self.typed_top = false;
        }
    }

    fn branch_item(&mut self, conditional: bool, t: Target) {
        let opc = if conditional { 0x28 } else { 0x2f };
        self.items.push(Item { bytes: vec![opc, 0, 0], target: Some(t) });
    }

    /// Emit one snippet (a short, mostly well-formed group of operations).
    pub fn snippet(&mut self) {
        let k = self.r.below(100);
        match k {
            0..=9 => self.push_word(),
            10..=24 => {
                // generic binary operation on two fresh operands
                let op = *self.r.pick(BIN_OPS);
                self.push_word();
                let is_shift = matches!(op, 0x24 | 0x25 | 0x26);
                if is_shift && self.r.chance(3, 4) {
                    let bits = 8 * self.enc.addr as u64;
                    let c = match self.r.below(6) {
                        0 => bits,
                        1 => bits - 1,
                        2 => bits + 1,
                        3 => 64,
                        _ => self.r.below(bits + 2),
                    };
                    self.push_const(c);
                } else if matches!(op, 0x1b | 0x1d) && self.r.chance(7, 8) {
                    let mut v = self.word();
                    if v & self.enc.addr_mask() == 0 {
                        v = 3;
                    }
                    self.push_const(v);
                } else {
                    self.push_word();
                }
                self.raw(vec![op]);
                self.depth -= 1;
            }
            25..=29 => {
                // binary operation on whatever is there
                if self.depth >= 2 && !self.typed_top {
                    let op = *self.r.pick(BIN_OPS);
                    self.raw(vec![op]);
                    self.depth -= 1;
                } else {
                    self.push_word();
                }
            }
            30..=35 => {
                if self.depth == 0 || self.typed_top {
                    self.push_word();
                }
                if self.r.chance(1, 3) {
                    let c = self.word();
                    let ul = self.uleb_any(c);
                    self.op(|a| {
                        a.u8(0x23).bytes(&ul);
                    });
                } else {
                    let op = *self.r.pick(UN_OPS);
                    self.raw(vec![op]);
                }
            }
            36..=43 => {
                // stack manipulation
                match self.r.below(7) {
                    0 if self.depth >= 1 => {
                        self.raw(vec![0x12]);
                        self.depth += 1;
                    }
                    1 if self.depth >= 1 => {
                        self.raw(vec![0x13]);
                        self.depth -= 1;
                        self.typed_top = false;
                    }
                    2 if self.depth >= 2 => {
                        self.raw(vec![0x14]);
                        self.depth += 1;
                        self.typed_top = false;
                    }
                    3 if self.depth >= 1 => {
                        let n = if self.r.chance(1, 10) { self.depth as u8 } else { self.r.below(self.depth as u64) as u8 };
                        self.raw(vec![0x15, n]);
                        self.depth += 1;
                        self.typed_top = false;
                    }
                    4 if self.depth >= 2 => {
                        self.raw(vec![0x16]);
                        self.typed_top = false;
                    }
                    5 if self.depth >= 3 => {
                        self.raw(vec![0x17]);
                        self.typed_top = false;
                    }
                    _ => {
                        // three distinguishable values then rot / swap / pick
                        for v in [1u64, 2, 3] {
                            self.push_const(v);
                        }
                        let o = *self.r.pick(&[0x17u8, 0x16, 0x14, 0x12]);
                        self.raw(vec![o]);
                        if o == 0x14 || o == 0x12 {
                            self.depth += 1;
                        }
                    }
                }
            }
            44..=55 => {
                // typed binary operation
                let t = self.a_type();
                let t2 = if self.r.chance(1, 10) { self.a_type() } else { t };
                self.push_typed(t);
                self.push_typed(t2);
                let op = *self.r.pick(BIN_OPS);
                self.raw(vec![op]);
                self.depth -= 1;
                let cmp = (0x29..=0x2e).contains(&op);
                self.typed_top = !cmp;
                if !cmp && self.r.chance(2, 3) {
                    let to = if self.r.chance(2, 3) { Ty::Generic } else { *self.r.pick(&ALL_TYPES) };
                    self.convert_to(to);
                }
            }
            56..=59 => {
                // typed unary
                let t = self.a_type();
                self.push_typed(t);
                if self.r.chance(1, 3) {
                    let c = self.r.boundary();
                    self.op(|a| {
                        a.u8(0x23).uleb(c);
                    });
                } else {
                    let op = *self.r.pick(UN_OPS);
                    self.raw(vec![op]);
                }
                if self.r.chance(1, 2) {
                    self.convert_to(Ty::Generic);
                }
            }
            60..=64 => {
                // typed shift with a generic or typed count
                let t = self.a_type();
                self.push_typed(t);
                let w = t.bits(self.enc.addr) as u64;
                if self.r.chance(2, 3) {
                    let c = match self.r.below(5) {
                        0 => w,
                        1 => w - 1,
                        2 => self.r.boundary(),
                        _ => self.r.below(w + 2),
                    };
                    self.push_const(c);
                } else {
                    let t2 = self.a_type();
                    self.push_typed(t2);
                }
                let op = *self.r.pick(&[0x24u8, 0x25, 0x26]);
                self.raw(vec![op]);
                self.depth -= 1;
                self.typed_top = true;
                if self.r.chance(1, 2) {
                    self.convert_to(Ty::Generic);
                }
            }
            65..=69 => {
                // conversion chains
                if self.r.bool() {
                    let t = self.a_type();
                    self.push_typed(t);
                } else {
                    self.push_word();
                }
                for _ in 0..1 + self.r.below(3) {
                    let t = *self.r.pick(&ALL_TYPES);
                    if self.r.chance(1, 4) {
                        self.reinterpret_to(t);
                    } else {
                        self.convert_to(t);
                    }
                }
                if self.r.chance(1, 2) {
                    self.convert_to(Ty::Generic);
                }
            }
            70..=72 => {
                // reinterpret between types of the same size
                let pairs: &[(Ty, Ty)] = &[(Ty::I8, Ty::U8), (Ty::U16, Ty::I16), (Ty::I32, Ty::F32), (Ty::F32, Ty::U32), (Ty::U64, Ty::F64), (Ty::F64, Ty::I64), (Ty::I32, Ty::U32)];
                let (x, y) = *self.r.pick(pairs);
                self.push_typed(x);
                self.reinterpret_to(y);
                if self.r.chance(1, 2) {
                    self.reinterpret_to(Ty::Generic);
                }
            }
            73..=84 => self.request_snippet(),
            85..=88 => {
                // countdown loop: k, L: body, lit1, minus, dup, bra L ; leaves 0 on the stack
                let n = 1 + self.r.below(6);
                self.push_const(n);
                let label = self.items.len();
                match self.r.below(4) {
                    0 => self.raw(vec![0x96]),
                    1 => {
                        self.raw(vec![0x12]);
                        self.raw(vec![0x13]);
                    }
                    2 => {
                        self.raw(vec![0x31]);
                        self.raw(vec![0x22]);
                        self.raw(vec![0x31]);
                        self.raw(vec![0x1c]);
                    }
                    _ => {}
                }
                self.raw(vec![0x31]);
                self.raw(vec![0x1c]);
                self.raw(vec![0x12]);
                self.branch_item(true, Target::Item(label));
            }
            89..=91 => {
                // forward skip over junk that must never be decoded
                let at = self.items.len();
                self.branch_item(false, Target::Item(at + 2));
                let junk = match self.r.below(4) {
                    0 => vec![0x00],
                    1 => vec![0xff, 0xff],
                    2 => vec![0x10, 0x80, 0x80],
                    _ => vec![0x13],
                };
                self.raw(junk);
            }
            92..=94 => {
                // conditional forward branch
                let c = if self.r.bool() { self.r.below(2) } else { self.word() };
                self.push_const(c);
                self.depth -= 1;
                let at = self.items.len();
                let over = 1 + self.r.usize(2);
                self.branch_item(true, Target::Item(at + 1 + over));
                for _ in 0..over {
                    self.raw(vec![0x96]);
                }
            }
            95..=97 => {
                // a branch with an arbitrary target kind
                let cond = self.r.bool();
                if cond {
                    let c = if self.r.chance(3, 4) { 1 } else { 0 };
                    self.push_const(c);
                    self.depth -= 1;
                }
                let n = self.items.len();
                let t = match self.r.below(8) {
                    0 => Target::End,
                    1 => Target::PastEnd(1 + self.r.below(3) as u16),
                    2 => Target::Mid(self.r.usize(n + 1)),
                    3 => Target::Negative,
                    4 => Target::Raw(self.r.next() as i16),
                    5 => Target::Item(self.r.usize(n + 1)),
                    _ => Target::Item(n + 1 + self.r.usize(3)),
                };
                self.branch_item(cond, t);
            }
            _ => {
                // rarely: an arbitrary opcode with arbitrary operand bytes
                let o = self.r.next() as u8;
                let n = self.r.usize(4);
                let mut b = vec![o];
                b.extend(self.r.bytes(n));
                self.raw(b);
            }
        }
    }

    /// A location description: pieces with every termination order.
    pub fn location_tail(&mut self) {
        let n = match self.r.below(6) {
            0 => 0,
            1 | 2 => 1,
            _ => 2 + self.r.usize(3),
        };
        let single_unterminated = self.r.chance(1, 3);
        for i in 0..n.max(1) {
            // the location
            match self.r.below(9) {
                0 | 1 => {
                    let reg = self.r.below(32) as u8;
                    self.raw(vec![0x50 + reg]);
                }
                2 => {
                    let reg = self.reg_num();
                    self.op(|a| {
                        a.u8(0x90).uleb(reg);
                    });
                }
                3 => {
                    let len = self.r.usize(9);
                    let data = self.r.bytes(len);
                    self.op(|a| {
                        a.u8(0x9e).uleb(len as u64).bytes(&data);
                    });
                }
                4 => {
                    if self.r.bool() {
                        self.push_word();
                    } else {
                        let t = self.a_type();
                        self.push_typed(t);
                    }
                    self.raw(vec![0x9f]);
                }
                5 => {
                    let v = self.r.boundary();
                    let off = self.r.boundary() as i64;
                    let enc = self.enc;
                    let gnu = self.r.chance(1, 3);
                    self.op(|a| {
                        a.u8(if gnu { 0xf2 } else { 0xa0 });
                        if enc.version == 2 {
                            a.uint(enc.addr as usize, v);
                        } else {
                            a.word(enc.fmt64, v);
                        }
                        a.sleb(off);
                    });
                }
                6 => {
                    // memory location: an address on the stack
                    self.push_word();
                }
                7 => {
                    let off = self.r.irange(-64, 64);
                    self.op(|a| {
                        a.u8(0x91).sleb(off);
                    });
                }
                _ => {
                    // empty piece (if the stack is empty)
                }
            }
            if n == 0 || (n == 1 && single_unterminated) {
                break;
            }
            // the piece
            let size = self.r.boundary() >> self.r.below(60);
            if self.r.chance(1, 4) {
                let off = self.r.boundary();
                self.op(|a| {
                    a.u8(0x9d).uleb(size).uleb(off);
                });
            } else {
                self.op(|a| {
                    a.u8(0x93).uleb(size >> 3);
                });
            }
            // termination disorders
            if i + 1 == n {
                match self.r.below(12) {
                    0 => self.raw(vec![0x96]),
                    1 => self.raw(vec![0x31]),
                    2 => self.op(|a| {
                        a.u8(0x91).sleb(8);
                    }),
                    3 => self.raw(vec![0x50]),
                    4 => self.raw(vec![0x9f]),
                    _ => {}
                }
            } else if self.r.chance(1, 12) {
                self.raw(vec![0x96]);
            }
        }
    }

    /// Lay the items out, resolve branch displacements, return the bytes and the offsets
    /// of the items.
    pub fn finish(self) -> (Vec<u8>, Vec<usize>) {
        let le = self.enc.le;
        let mut offs = vec![];
        let mut o = 0usize;
        for it in &self.items {
            offs.push(o);
            o += it.bytes.len();
        }
        let total = o;
        let mut out = vec![];
        for (i, it) in self.items.iter().enumerate() {
            let mut b = it.bytes.clone();
            if let Some(t) = &it.target {
                let after = (offs[i] + 3) as i64;
                let dest: i64 = match t {
                    Target::Item(j) => {
                        if *j >= offs.len() {
                            total as i64
                        } else {
                            offs[*j] as i64
                        }
                    }
                    Target::End => total as i64,
                    Target::PastEnd(k) => total as i64 + *k as i64,
                    Target::Mid(j) => {
                        if *j >= offs.len() {
                            total as i64
                        } else if self.items[*j].bytes.len() > 1 {
                            offs[*j] as i64 + 1
                        } else {
                            offs[*j] as i64
                        }
                    }
                    Target::Negative => -1,
                    Target::Raw(d) => after + *d as i64,
                };
                let d = (dest - after) as i16 as u16;
                if le {
                    b[1] = d as u8;
                    b[2] = (d >> 8) as u8;
                } else {
                    b[1] = (d >> 8) as u8;
                    b[2] = d as u8;
                }
            }
            out.extend_from_slice(&b);
        }
        (out, offs)
    }
}

/// A random program of roughly `n` snippets, optionally ending in a location description.
pub fn random_program(enc: Enc, r: &mut Rng, n: usize, level: u32) -> Vec<u8> {
    let with_loc = r.chance(2, 5);
    let mut b = Builder::new(enc, r, level);
    for _ in 0..n {
        b.snippet();
    }
    if with_loc {
        b.location_tail();
    } else if b.r.chance(1, 6) {
        b.raw(vec![0x9f]);
    }
    b.finish().0
}

// ------------------------------------------------------------------ decode catalogue

/// Operand tails for the decode catalogue: byte strings to put after an opcode byte.
/// Independent of the opcode, so that the decoder model alone decides what they mean.
pub fn decode_tails(enc: Enc, r: &mut Rng) -> Vec<Vec<u8>> {
    let mut v: Vec<Vec<u8>> = vec![];
    v.push(vec![]);
    v.push(vec![0x00; 12]);
    v.push(vec![0xff; 12]);
    v.push(vec![0x7f; 12]);
    v.push(vec![0x80; 12]);
    // 0x80 x k then a terminator: LEB128 boundaries at 9 / 10 bytes
    for (k, t) in [(8usize, 0x7fu8), (9, 0x01), (9, 0x02), (9, 0x00), (9, 0x7f), (9, 0x40), (9, 0x7e)] {
        let mut b = vec![0x80u8; k];
        b.push(t);
        b.extend_from_slice(&[0x05, 0x83, 0x01, 0x00]);
        v.push(b.clone());
        let mut c = vec![0xffu8; k];
        c.push(t);
        c.extend_from_slice(&[0x05, 0x83, 0x01, 0x00]);
        v.push(c);
    }
    // small count / length / kind byte followed by data: blocks, wasm kinds, typed consts
    for first in [0u8, 1, 2, 3, 4, 5, 8, 9, 0x10, 0x7f, 0x80, 0xfe] {
        let mut b = vec![first];
        b.extend(r.bytes(11));
        v.push(b);
        // first, then a LEB length that exactly covers / exceeds the rest
        let mut c = vec![first, 4, 0xde, 0xad, 0xbe, 0xef];
        v.push(c.clone());
        c[1] = 5;
        v.push(c);
    }
    // two LEB128 boundary values back to back (register + offset, size + offset ...)
    for _ in 0..10 {
        let mut b = uleb_bytes(match r.below(4) {
            0 => 65535,
            1 => 65536,
            2 => r.below(70000),
            _ => r.boundary(),
        });
        if r.bool() {
            b.extend(sleb_bytes(r.boundary() as i64));
        } else {
            b.extend(uleb_bytes(*r.pick(EXTREMES)));
        }
        b.extend(r.bytes(2));
        v.push(b);
    }
    // piece sizes around 2^61 and u32 boundaries for WASM indices (after a kind byte)
    for x in [(1u64 << 61) - 1, 1 << 61, (1 << 61) + 1, u64::MAX, 0xffff_ffff, 0x1_0000_0000] {
        v.push(uleb_bytes(x));
        for kind in 0..4u8 {
            let mut b = vec![kind];
            b.extend(uleb_bytes(x));
            v.push(b);
        }
    }
    // fixed-width boundary words in the expression's byte order
    for _ in 0..6 {
        let mut a = Asm::new(enc.le);
        a.u64(r.boundary()).u32(r.boundary() as u32);
        v.push(a.buf);
    }
    for _ in 0..6 {
        let n = r.usize(14);
        v.push(r.bytes(n));
    }
    v
}

//! gen

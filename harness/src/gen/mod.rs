//! Section generators (bytes + field map + model).
pub mod cfi;
pub mod expr;
pub mod index;
pub mod info;
pub mod line;
pub mod lists;
pub mod mutate;
pub mod seeds;
pub mod wr;

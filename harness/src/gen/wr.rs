//! Seeded model builder for the unit writer (C11, C18).
//!
//! A `CaseSpec` is a pure description of 1-4 units (entry trees, attributes of every
//! `gimli::write::AttributeValue` kind, references, lists, strings, line programs).  From it
//! this module derives
//!  * the `gimli::write::Dwarf` / `DwarfUnit` object (`build`), with addresses either
//!    constant or symbolic (`AddrMode`);
//!  * the model forest in written order (`model_order`: pre-order, children in creation
//!    order, base types first among the root's children, deleted sub-trees removed);
//!  * the verdict whether the writer can encode the request (`classify`);
//!  * an independent encoder of expressions (`encode_x`, opcode numbers from DWARF 5 + GNU).
//! Nothing here reads gimli's answers.

use crate::asm::{Asm, Enc};
use crate::rt::Rng;
use gimli::constants as dw;
use gimli::write as w;
use gimli::write::Address;
use std::collections::BTreeMap;

#[path = "wr_gen.rs"]
pub mod gen;
pub use gen::gen_case;

/// Vendor attribute that carries the identity of every entry.
pub const ID_AT: u16 = 0x3e01;

pub fn ident(u: usize, k: usize) -> u64 {
    ((u as u64 + 1) << 12) | (k as u64 & 0xfff)
}

pub const DW_TAG_BASE_TYPE: u16 = 0x24;

#[derive(Clone, Debug, PartialEq, Eq, Hash)]
pub struct AddrSpec {
    pub sym: Option<usize>,
    /// absolute value, or the addend when `sym` is set
    pub val: u64,
}

impl AddrSpec {
    pub fn abs(v: u64) -> AddrSpec {
        AddrSpec { sym: None, val: v }
    }
    pub fn constant(&self, symvals: &[u64]) -> u64 {
        match self.sym {
            Some(s) => symvals.get(s).copied().unwrap_or(0).wrapping_add(self.val),
            None => self.val,
        }
    }
    pub fn plus(&self, d: u64) -> AddrSpec {
        AddrSpec { sym: self.sym, val: self.val.wrapping_add(d) }
    }
}

#[derive(Clone, Copy, Debug, PartialEq, Eq)]
pub enum AddrMode {
    Constant,
    Symbolic,
}

#[derive(Clone, Debug, PartialEq, Eq, Hash)]
pub enum XOp {
    Simple(u8),
    Addr(AddrSpec),
    Constu(u64),
    Consts(i64),
    Fbreg(i64),
    Breg(u16, i64),
    Reg(u16),
    Pick(u8),
    Deref(bool),
    DerefSize(bool, u8),
    PlusUconst(u64),
    Piece(u64),
    BitPiece(u64, u64),
    ImplicitValue(Vec<u8>),
    Wasm(u8, u32),
    // ULEB references to entries of the same unit
    ConstType(usize, Vec<u8>),
    RegvalType(u16, usize),
    DerefType(bool, u8, usize),
    Convert(Option<usize>),
    Reinterpret(Option<usize>),
    // fixed-size references to entries of the same unit
    Call(usize),
    ParameterRef(usize),
    // references to entries of any unit (unit index, entry index)
    CallRef(usize, usize),
    VariableValue(usize, usize),
    ImplicitPointer(usize, usize, i64),
    EntryValue(Vec<XOp>),
    /// DW_OP_skip / DW_OP_bra to the operation with this index (top level only; len = end)
    Skip(usize),
    Bra(usize),
}

#[derive(Clone, Debug, PartialEq, Eq, Hash)]
pub enum XSpec {
    Ops(Vec<XOp>),
    Raw(Vec<u8>),
}

#[derive(Clone, Debug, PartialEq, Eq, Hash)]
pub enum ValSpec {
    Address(AddrSpec),
    Block(Vec<u8>),
    Data1(u8),
    Data2(u16),
    Data4(u32),
    Data8(u64),
    Data16(u128),
    Sdata(i64),
    Udata(u64),
    ImplicitConst(i64),
    Exprloc(XSpec),
    Flag(bool),
    FlagPresent,
    UnitRef(usize),
    DebugInfoRef(usize, usize),
    DebugInfoRefSym(usize),
    DebugInfoRefSup(u64),
    LineProgramRef,
    LocationListRef(usize),
    DebugMacinfoRef(u64),
    DebugMacroRef(u64),
    RangeListRef(usize),
    DebugTypesRef(u64),
    StringRef(usize),
    DebugStrRefSup(u64),
    LineStringRef(usize),
    String(Vec<u8>),
    Encoding(u8),
    DecimalSign(u8),
    Endianity(u8),
    Accessibility(u8),
    Visibility(u8),
    Virtuality(u8),
    Language(u16),
    AddressClass(u64),
    IdentifierCase(u8),
    CallingConvention(u8),
    Inline(u8),
    Ordering(u8),
    FileIndex(Option<usize>),
}

impl ValSpec {
    pub fn kind(&self) -> &'static str {
        use ValSpec::*;
        match self {
            Address(_) => "Address",
            Block(_) => "Block",
            Data1(_) => "Data1",
            Data2(_) => "Data2",
            Data4(_) => "Data4",
            Data8(_) => "Data8",
            Data16(_) => "Data16",
            Sdata(_) => "Sdata",
            Udata(_) => "Udata",
            ImplicitConst(_) => "ImplicitConst",
            Exprloc(_) => "Exprloc",
            Flag(_) => "Flag",
            FlagPresent => "FlagPresent",
            UnitRef(_) => "UnitRef",
            DebugInfoRef(..) => "DebugInfoRef",
            DebugInfoRefSym(_) => "DebugInfoRefSym",
            DebugInfoRefSup(_) => "DebugInfoRefSup",
            LineProgramRef => "LineProgramRef",
            LocationListRef(_) => "LocationListRef",
            DebugMacinfoRef(_) => "DebugMacinfoRef",
            DebugMacroRef(_) => "DebugMacroRef",
            RangeListRef(_) => "RangeListRef",
            DebugTypesRef(_) => "DebugTypesRef",
            StringRef(_) => "StringRef",
            DebugStrRefSup(_) => "DebugStrRefSup",
            LineStringRef(_) => "LineStringRef",
            String(_) => "String",
            Encoding(_) => "Encoding",
            DecimalSign(_) => "DecimalSign",
            Endianity(_) => "Endianity",
            Accessibility(_) => "Accessibility",
            Visibility(_) => "Visibility",
            Virtuality(_) => "Virtuality",
            Language(_) => "Language",
            AddressClass(_) => "AddressClass",
            IdentifierCase(_) => "IdentifierCase",
            CallingConvention(_) => "CallingConvention",
            Inline(_) => "Inline",
            Ordering(_) => "Ordering",
            FileIndex(_) => "FileIndex",
        }
    }
}

pub const ALL_KINDS: &[&str] = &[
    "Address", "Block", "Data1", "Data2", "Data4", "Data8", "Data16", "Sdata", "Udata", "ImplicitConst", "Exprloc", "Flag", "FlagPresent",
    "UnitRef", "DebugInfoRef", "DebugInfoRefSym", "DebugInfoRefSup", "LineProgramRef", "LocationListRef", "DebugMacinfoRef", "DebugMacroRef",
    "RangeListRef", "DebugTypesRef", "StringRef", "DebugStrRefSup", "LineStringRef", "String", "Encoding", "DecimalSign", "Endianity",
    "Accessibility", "Visibility", "Virtuality", "Language", "AddressClass", "IdentifierCase", "CallingConvention", "Inline", "Ordering", "FileIndex",
];

#[derive(Clone, Debug, PartialEq, Eq, Hash)]
pub struct AttrSpec {
    pub name: u16,
    pub val: ValSpec,
}

#[derive(Clone, Debug)]
pub struct EntrySpec {
    /// index (creation order) of the parent; entry 0 is the root
    pub parent: usize,
    pub tag: u16,
    pub sibling: bool,
    /// `Some(j)`: the id is obtained with `reserve()` just before creation step j (<= own index)
    /// and the entry is added with `add_reserved` at its own step
    pub reserve_at: Option<usize>,
    /// removed from its parent with `delete_child` after construction
    pub deleted: bool,
    pub attrs: Vec<AttrSpec>,
}

#[derive(Clone, Debug, PartialEq, Eq, Hash)]
pub struct RListSpec {
    /// StartLength / StartEnd items before the base (only where the encoding allows them)
    pub pre: Vec<(AddrSpec, u64)>,
    pub base: AddrSpec,
    pub pairs: Vec<(u64, u64)>,
}

#[derive(Clone, Debug, PartialEq, Eq, Hash)]
pub struct LListSpec {
    pub pre: Vec<(AddrSpec, u64, XSpec)>,
    pub base: AddrSpec,
    pub pairs: Vec<(u64, u64, XSpec)>,
}

#[derive(Clone, Debug)]
pub struct SeqSpec {
    pub start: AddrSpec,
    /// (address offset, line, file index into LineSpec::files)
    pub rows: Vec<(u64, u64, usize)>,
    pub end_off: u64,
}

#[derive(Clone, Debug)]
pub struct LineSpec {
    pub fmt64: bool,
    /// version 5 only: 0 = inline strings, 1 = .debug_str, 2 = .debug_line_str
    pub str_kind: u8,
    pub comp_dir: Vec<u8>,
    pub dirs: Vec<Vec<u8>>,
    /// (name, directory: 0 = comp_dir, k = dirs[k-1]); files[0] is the primary source file
    pub files: Vec<(Vec<u8>, usize)>,
    pub seqs: Vec<SeqSpec>,
}

#[derive(Clone, Debug)]
pub struct UnitSpec {
    pub enc: Enc,
    pub entries: Vec<EntrySpec>,
    /// creation steps before which an id is reserved and never added
    pub phantoms: Vec<usize>,
    pub rlists: Vec<RListSpec>,
    pub llists: Vec<LListSpec>,
    pub line: Option<LineSpec>,
}

#[derive(Clone, Debug)]
pub struct CaseSpec {
    pub le: bool,
    /// one unit written with `DwarfUnit::write` instead of `Dwarf::write`
    pub single: bool,
    pub units: Vec<UnitSpec>,
    pub strings: Vec<Vec<u8>>,
    pub line_strings: Vec<Vec<u8>>,
    pub symvals: Vec<u64>,
}

// ================================================================ model: written order

impl UnitSpec {
    pub fn is_deleted(&self, k: usize) -> bool {
        let mut k = k;
        let mut guard = 0;
        loop {
            if self.entries[k].deleted {
                return true;
            }
            if k == 0 || guard > self.entries.len() {
                return false;
            }
            k = self.entries[k].parent;
            guard += 1;
        }
    }

    pub fn children_written(&self, k: usize) -> Vec<usize> {
        let mut c: Vec<usize> = (1..self.entries.len()).filter(|&j| self.entries[j].parent == k && !self.entries[j].deleted).collect();
        if k == 0 {
            let (mut a, b): (Vec<usize>, Vec<usize>) = c.iter().partition(|&&j| self.entries[j].tag == DW_TAG_BASE_TYPE);
            a.extend(b);
            c = a;
        }
        c
    }

    /// Entries in written (pre-)order with their depth.
    pub fn model_order(&self) -> Vec<(usize, usize)> {
        let mut out = vec![];
        let mut stack = vec![(0usize, 0usize)];
        while let Some((k, d)) = stack.pop() {
            out.push((k, d));
            let c = self.children_written(k);
            for &j in c.iter().rev() {
                stack.push((j, d + 1));
            }
        }
        out
    }

    /// The root has a DW_AT_low_pc that is not the constant 0.
    pub fn has_base(&self) -> bool {
        self.entries[0].attrs.iter().any(|a| a.name == dw::DW_AT_low_pc.0 && matches!(&a.val, ValSpec::Address(x) if x.sym.is_some() || x.val != 0))
    }
}

// ================================================================ classification

#[derive(Clone, Copy, Debug, PartialEq, Eq, Hash, PartialOrd, Ord)]
pub enum Cls {
    /// address / offset / length does not fit its field
    TooLarge,
    /// ULEB reference from an attribute expression to an entry written later
    ForwardUleb,
    /// reference to an entry that is not (any longer) part of the tree
    DeletedTarget,
    /// LineProgramRef in a unit without a line program
    NoLineProgram,
    /// DebugInfoRef::Symbol with a writer that has no symbols
    SymbolRef,
    /// Address::Symbol with a writer that has no relocations
    SymbolicAddress,
    /// unit version outside 2..=5
    BadVersion,
    /// version 2 DW_FORM_ref_addr / implicit_pointer is address sized: may or may not fit
    MaybeTooLargeRef,
}

impl Cls {
    pub fn name(self) -> &'static str {
        match self {
            Cls::TooLarge => "TooLarge",
            Cls::ForwardUleb => "ForwardUleb",
            Cls::DeletedTarget => "DeletedTarget",
            Cls::NoLineProgram => "NoLineProgram",
            Cls::SymbolRef => "SymbolRef",
            Cls::SymbolicAddress => "SymbolicAddress",
            Cls::BadVersion => "BadVersion",
            Cls::MaybeTooLargeRef => "MaybeTooLargeRef",
        }
    }
}

#[derive(Clone, Debug, PartialEq, Eq)]
pub enum Expect {
    MustOk,
    MustErr(Vec<Cls>),
    /// only `MaybeTooLargeRef`: Ok (then the read-back must be right) or ValueTooLarge
    Unjudged,
}

struct XCtx<'a> {
    spec: &'a CaseSpec,
    u: usize,
    /// position in written order of every live entry of unit u
    pos: &'a BTreeMap<usize, usize>,
    /// written position of the entry owning the expression (None: location list)
    owner: Option<usize>,
    mode_symbolic_plain: bool,
}

fn classify_addr(a: &AddrSpec, enc: Enc, spec: &CaseSpec, symbolic_plain: bool, out: &mut Vec<Cls>) {
    if symbolic_plain && a.sym.is_some() {
        out.push(Cls::SymbolicAddress);
        return;
    }
    let v = a.constant(&spec.symvals);
    if v & !enc.addr_mask() != 0 {
        out.push(Cls::TooLarge);
    }
}

fn classify_ops(ops: &[XOp], c: &XCtx<'_>, out: &mut Vec<Cls>) {
    let us = &c.spec.units[c.u];
    let enc = us.enc;
    let live = |uu: usize, k: usize| -> bool { c.spec.units.get(uu).map_or(false, |x| k < x.entries.len() && !x.is_deleted(k)) };
    let mut uleb = |k: usize, out: &mut Vec<Cls>| {
        if !live(c.u, k) {
            out.push(Cls::DeletedTarget);
        } else if let Some(owner) = c.owner {
            if c.pos.get(&k).copied().unwrap_or(usize::MAX) > owner {
                out.push(Cls::ForwardUleb);
            }
        }
    };
    for op in ops {
        match op {
            XOp::Addr(a) => classify_addr(a, enc, c.spec, c.mode_symbolic_plain, out),
            XOp::ConstType(k, d) => {
                uleb(*k, out);
                if d.len() > 255 {
                    out.push(Cls::TooLarge);
                }
            }
            XOp::RegvalType(_, k) | XOp::DerefType(_, _, k) => uleb(*k, out),
            XOp::Convert(Some(k)) | XOp::Reinterpret(Some(k)) => uleb(*k, out),
            XOp::Call(k) | XOp::ParameterRef(k) => {
                if !live(c.u, *k) {
                    out.push(Cls::DeletedTarget);
                }
            }
            XOp::CallRef(uu, k) | XOp::VariableValue(uu, k) => {
                if !live(*uu, *k) {
                    out.push(Cls::DeletedTarget);
                }
            }
            XOp::ImplicitPointer(uu, k, _) => {
                if !live(*uu, *k) {
                    out.push(Cls::DeletedTarget);
                } else if enc.version == 2 && enc.addr < 4 {
                    out.push(Cls::MaybeTooLargeRef);
                }
            }
            XOp::EntryValue(inner) => classify_ops(inner, c, out),
            _ => {}
        }
    }
}

fn classify_x(x: &XSpec, c: &XCtx<'_>, out: &mut Vec<Cls>) {
    if let XSpec::Ops(ops) = x {
        classify_ops(ops, c, out);
    }
}

/// Upper bound of the size of `.debug_info` for the whole case (used to decide whether an
/// address-sized reference certainly fits).
pub fn info_size_upper_bound(spec: &CaseSpec) -> u64 {
    let mut total: u64 = 0;
    for us in &spec.units {
        total += 24;
        for e in &us.entries {
            total += 3 + 8 + 1;
            for a in &e.attrs {
                total += match &a.val {
                    ValSpec::Block(b) | ValSpec::String(b) => b.len() as u64 + 11,
                    ValSpec::Exprloc(XSpec::Raw(b)) => b.len() as u64 + 11,
                    ValSpec::Exprloc(XSpec::Ops(ops)) => 11 + ops_bound(ops),
                    ValSpec::Data16(_) => 16,
                    _ => 10,
                };
            }
        }
    }
    total
}

fn ops_bound(ops: &[XOp]) -> u64 {
    ops.iter()
        .map(|o| match o {
            XOp::ImplicitValue(d) | XOp::ConstType(_, d) => d.len() as u64 + 24,
            XOp::EntryValue(i) => 12 + ops_bound(i),
            _ => 24,
        })
        .sum()
}

/// `symbolic_plain`: the object is built with symbolic addresses but written with a writer
/// that does not record relocations.
pub fn classify(spec: &CaseSpec, symbolic_plain: bool) -> Expect {
    let mut out: Vec<Cls> = vec![];
    let bound = info_size_upper_bound(spec);
    for (u, us) in spec.units.iter().enumerate() {
        let enc = us.enc;
        if !(2..=5).contains(&enc.version) {
            out.push(Cls::BadVersion);
        }
        let order = us.model_order();
        let pos: BTreeMap<usize, usize> = order.iter().enumerate().map(|(i, (k, _))| (*k, i)).collect();
        let live = |uu: usize, k: usize| -> bool { spec.units.get(uu).map_or(false, |x| k < x.entries.len() && !x.is_deleted(k)) };
        let offset_too_large = |v: u64| !enc.fmt64 && v > 0xffff_ffff;
        for (i, (k, _)) in order.iter().enumerate() {
            for a in &us.entries[*k].attrs {
                match &a.val {
                    ValSpec::Address(x) => classify_addr(x, enc, spec, symbolic_plain, &mut out),
                    ValSpec::Exprloc(x) => {
                        let c = XCtx { spec, u, pos: &pos, owner: Some(i), mode_symbolic_plain: symbolic_plain };
                        classify_x(x, &c, &mut out);
                    }
                    ValSpec::UnitRef(t) => {
                        if !live(u, *t) {
                            out.push(Cls::DeletedTarget);
                        }
                    }
                    ValSpec::DebugInfoRef(uu, t) => {
                        if !live(*uu, *t) {
                            out.push(Cls::DeletedTarget);
                        } else if enc.version == 2 && enc.addr < 4 {
                            let lim = if enc.addr == 1 { 0xff } else { 0xffff };
                            if bound > lim {
                                out.push(Cls::MaybeTooLargeRef);
                            }
                        }
                    }
                    ValSpec::DebugInfoRefSym(_) => out.push(Cls::SymbolRef),
                    ValSpec::DebugInfoRefSup(v) | ValSpec::DebugStrRefSup(v) | ValSpec::DebugMacinfoRef(v) | ValSpec::DebugMacroRef(v) => {
                        if offset_too_large(*v) {
                            out.push(Cls::TooLarge);
                        }
                    }
                    ValSpec::LineProgramRef => {
                        if us.line.is_none() {
                            out.push(Cls::NoLineProgram);
                        }
                    }
                    _ => {}
                }
            }
        }
        // lists are written whether or not an attribute refers to them
        // (the `pre` items are only emitted - hence only judged - where `pre_allowed`)
        let pre_ok = pre_allowed(us);
        for l in &us.rlists {
            for (a, len) in l.pre.iter().filter(|_| pre_ok) {
                classify_addr(a, enc, spec, symbolic_plain, &mut out);
                classify_addr(&a.plus(*len), enc, spec, symbolic_plain, &mut out);
            }
            classify_addr(&l.base, enc, spec, symbolic_plain, &mut out);
        }
        for l in &us.llists {
            let c = XCtx { spec, u, pos: &pos, owner: None, mode_symbolic_plain: symbolic_plain };
            for (a, len, x) in l.pre.iter().filter(|_| pre_ok) {
                classify_addr(a, enc, spec, symbolic_plain, &mut out);
                classify_addr(&a.plus(*len), enc, spec, symbolic_plain, &mut out);
                classify_x(x, &c, &mut out);
            }
            classify_addr(&l.base, enc, spec, symbolic_plain, &mut out);
            for (_, _, x) in &l.pairs {
                classify_x(x, &c, &mut out);
            }
        }
        if let Some(lp) = &us.line {
            for s in &lp.seqs {
                classify_addr(&s.start, enc, spec, symbolic_plain, &mut out);
            }
        }
    }
    // ImplicitPointer in v2 small-address units: only a "maybe" when the bound is exceeded
    let lim_ok = |enc: Enc| bound <= if enc.addr == 1 { 0xff } else { 0xffff };
    if out.iter().any(|c| *c == Cls::MaybeTooLargeRef) && spec.units.iter().all(|u| !(u.enc.version == 2 && u.enc.addr < 4) || lim_ok(u.enc)) {
        out.retain(|c| *c != Cls::MaybeTooLargeRef);
    }
    out.sort();
    out.dedup();
    if out.is_empty() {
        Expect::MustOk
    } else if out.iter().all(|c| *c == Cls::MaybeTooLargeRef) {
        Expect::Unjudged
    } else {
        out.retain(|c| *c != Cls::MaybeTooLargeRef);
        Expect::MustErr(out)
    }
}

// ================================================================ build the gimli object

pub struct Ids {
    pub units: Vec<w::UnitId>,
    pub entries: Vec<Vec<w::UnitEntryId>>,
}

pub struct Built {
    pub dwarf: Option<w::Dwarf>,
    pub dunit: Option<w::DwarfUnit>,
}

fn mk_addr(a: &AddrSpec, spec: &CaseSpec, mode: AddrMode) -> Address {
    match (mode, a.sym) {
        (AddrMode::Symbolic, Some(s)) => Address::Symbol { symbol: s, addend: a.val as i64 },
        _ => Address::Constant(a.constant(&spec.symvals)),
    }
}

fn build_ops(e: &mut w::Expression, ops: &[XOp], u: usize, ids: &Ids, spec: &CaseSpec, mode: AddrMode) {
    let die = |uu: usize, k: usize| ids.entries[uu][k];
    let dref = |uu: usize, k: usize| w::DebugInfoRef::Entry(ids.units[uu], ids.entries[uu][k]);
    let mut branches: Vec<(usize, usize)> = vec![];
    let first = e.next_index();
    for op in ops {
        match op {
            XOp::Simple(b) => e.op(gimli::DwOp(*b)),
            XOp::Addr(a) => e.op_addr(mk_addr(a, spec, mode)),
            XOp::Constu(v) => e.op_constu(*v),
            XOp::Consts(v) => e.op_consts(*v),
            XOp::Fbreg(v) => e.op_fbreg(*v),
            XOp::Breg(r, v) => e.op_breg(gimli::Register(*r), *v),
            XOp::Reg(r) => e.op_reg(gimli::Register(*r)),
            XOp::Pick(i) => e.op_pick(*i),
            XOp::Deref(false) => e.op_deref(),
            XOp::Deref(true) => e.op_xderef(),
            XOp::DerefSize(false, n) => e.op_deref_size(*n),
            XOp::DerefSize(true, n) => e.op_xderef_size(*n),
            XOp::PlusUconst(v) => e.op_plus_uconst(*v),
            XOp::Piece(v) => e.op_piece(*v),
            XOp::BitPiece(s, o) => e.op_bit_piece(*s, *o),
            XOp::ImplicitValue(d) => e.op_implicit_value(d.clone().into_boxed_slice()),
            XOp::Wasm(0, i) => e.op_wasm_local(*i),
            XOp::Wasm(1, i) => e.op_wasm_global(*i),
            XOp::Wasm(_, i) => e.op_wasm_stack(*i),
            XOp::ConstType(k, d) => e.op_const_type(die(u, *k), d.clone().into_boxed_slice()),
            XOp::RegvalType(r, k) => e.op_regval_type(gimli::Register(*r), die(u, *k)),
            XOp::DerefType(false, n, k) => e.op_deref_type(*n, die(u, *k)),
            XOp::DerefType(true, n, k) => e.op_xderef_type(*n, die(u, *k)),
            XOp::Convert(k) => e.op_convert(k.map(|k| die(u, k))),
            XOp::Reinterpret(k) => e.op_reinterpret(k.map(|k| die(u, k))),
            XOp::Call(k) => e.op_call(die(u, *k)),
            XOp::ParameterRef(k) => e.op_gnu_parameter_ref(die(u, *k)),
            XOp::CallRef(uu, k) => e.op_call_ref(dref(*uu, *k)),
            XOp::VariableValue(uu, k) => e.op_variable_value(dref(*uu, *k)),
            XOp::ImplicitPointer(uu, k, off) => e.op_implicit_pointer(dref(*uu, *k), *off),
            XOp::EntryValue(inner) => {
                let mut x = w::Expression::new();
                build_ops(&mut x, inner, u, ids, spec, mode);
                e.op_entry_value(x);
            }
            XOp::Skip(t) => branches.push((e.op_skip(), *t)),
            XOp::Bra(t) => branches.push((e.op_bra(), *t)),
        }
    }
    for (b, t) in branches {
        e.set_target(b, first + t.min(ops.len()));
    }
}

pub fn build_expr(x: &XSpec, u: usize, ids: &Ids, spec: &CaseSpec, mode: AddrMode) -> w::Expression {
    match x {
        XSpec::Raw(b) => w::Expression::raw(b.clone()),
        XSpec::Ops(ops) => {
            let mut e = w::Expression::new();
            build_ops(&mut e, ops, u, ids, spec, mode);
            e
        }
    }
}

fn build_rlist(l: &RListSpec, v5_or_nobase: bool, spec: &CaseSpec, mode: AddrMode) -> w::RangeList {
    let mut v = vec![];
    if v5_or_nobase {
        for (i, (a, len)) in l.pre.iter().enumerate() {
            if i % 2 == 0 {
                v.push(w::Range::StartLength { begin: mk_addr(a, spec, mode), length: *len });
            } else {
                v.push(w::Range::StartEnd { begin: mk_addr(a, spec, mode), end: mk_addr(&a.plus(*len), spec, mode) });
            }
        }
    }
    v.push(w::Range::BaseAddress { address: mk_addr(&l.base, spec, mode) });
    for (b, e) in &l.pairs {
        v.push(w::Range::OffsetPair { begin: *b, end: *e });
    }
    w::RangeList(v)
}

fn build_llist(l: &LListSpec, v5_or_nobase: bool, u: usize, ids: &Ids, spec: &CaseSpec, mode: AddrMode) -> w::LocationList {
    let mut v = vec![];
    if v5_or_nobase {
        for (i, (a, len, x)) in l.pre.iter().enumerate() {
            let data = build_expr(x, u, ids, spec, mode);
            if i % 2 == 0 {
                v.push(w::Location::StartLength { begin: mk_addr(a, spec, mode), length: *len, data });
            } else {
                v.push(w::Location::StartEnd { begin: mk_addr(a, spec, mode), end: mk_addr(&a.plus(*len), spec, mode), data });
            }
        }
    }
    v.push(w::Location::BaseAddress { address: mk_addr(&l.base, spec, mode) });
    for (b, e, x) in &l.pairs {
        v.push(w::Location::OffsetPair { begin: *b, end: *e, data: build_expr(x, u, ids, spec, mode) });
    }
    w::LocationList(v)
}

/// Whether the `pre` items of the lists of this unit are emitted.
pub fn pre_allowed(us: &UnitSpec) -> bool {
    us.enc.version >= 5 || !us.has_base()
}

fn build_line(lp: &LineSpec, enc: Enc, spec: &CaseSpec, mode: AddrMode, strings: &mut w::StringTable, line_strings: &mut w::LineStringTable) -> (w::LineProgram, Vec<w::FileId>) {
    let mut lenc = enc.encoding();
    lenc.format = if lp.fmt64 { gimli::Format::Dwarf64 } else { gimli::Format::Dwarf32 };
    let mut ls = |b: &Vec<u8>| -> w::LineString {
        if enc.version >= 5 {
            match lp.str_kind {
                1 => w::LineString::StringRef(strings.add(b.clone())),
                2 => w::LineString::LineStringRef(line_strings.add(b.clone())),
                _ => w::LineString::String(b.clone()),
            }
        } else {
            w::LineString::String(b.clone())
        }
    };
    let comp_dir = ls(&lp.comp_dir);
    let comp_file = ls(&lp.files[0].0);
    let src_dir = if lp.files[0].1 == 0 { None } else { Some(ls(&lp.dirs[lp.files[0].1 - 1])) };
    let mut p = w::LineProgram::new(lenc, gimli::LineEncoding::default(), comp_dir, src_dir, comp_file, None);
    let mut dir_ids = vec![p.default_directory()];
    for d in &lp.dirs {
        let s = ls(d);
        dir_ids.push(p.add_directory(s));
    }
    let mut file_ids = vec![];
    for (name, d) in &lp.files {
        let s = ls(name);
        file_ids.push(p.add_file(s, dir_ids[*d], None));
    }
    for s in &lp.seqs {
        p.begin_sequence(Some(mk_addr(&s.start, spec, mode)));
        for (off, line, f) in &s.rows {
            p.row().address_offset = *off;
            p.row().line = *line;
            p.row().file = file_ids[*f];
            p.generate_row();
        }
        p.end_sequence(s.end_off);
    }
    (p, file_ids)
}

struct UnitCtx<'a> {
    u: usize,
    spec: &'a CaseSpec,
    mode: AddrMode,
    ids: &'a Ids,
    str_ids: &'a [w::StringId],
    lstr_ids: &'a [w::LineStringId],
    rl_ids: &'a [w::RangeListId],
    ll_ids: &'a [w::LocationListId],
    file_ids: &'a [w::FileId],
}

fn mk_value(v: &ValSpec, c: &UnitCtx<'_>) -> w::AttributeValue {
    use w::AttributeValue as A;
    match v {
        ValSpec::Address(a) => A::Address(mk_addr(a, c.spec, c.mode)),
        ValSpec::Block(b) => A::Block(b.clone()),
        ValSpec::Data1(x) => A::Data1(*x),
        ValSpec::Data2(x) => A::Data2(*x),
        ValSpec::Data4(x) => A::Data4(*x),
        ValSpec::Data8(x) => A::Data8(*x),
        ValSpec::Data16(x) => A::Data16(*x),
        ValSpec::Sdata(x) => A::Sdata(*x),
        ValSpec::Udata(x) => A::Udata(*x),
        ValSpec::ImplicitConst(x) => A::ImplicitConst(*x),
        ValSpec::Exprloc(x) => A::Exprloc(build_expr(x, c.u, c.ids, c.spec, c.mode)),
        ValSpec::Flag(b) => A::Flag(*b),
        ValSpec::FlagPresent => A::FlagPresent,
        ValSpec::UnitRef(k) => A::UnitRef(c.ids.entries[c.u][*k]),
        ValSpec::DebugInfoRef(uu, k) => A::DebugInfoRef(w::DebugInfoRef::Entry(c.ids.units[*uu], c.ids.entries[*uu][*k])),
        ValSpec::DebugInfoRefSym(s) => A::DebugInfoRef(w::DebugInfoRef::Symbol(*s)),
        ValSpec::DebugInfoRefSup(x) => A::DebugInfoRefSup(gimli::DebugInfoOffset(*x as usize)),
        ValSpec::LineProgramRef => A::LineProgramRef,
        ValSpec::LocationListRef(l) => A::LocationListRef(c.ll_ids[*l]),
        ValSpec::DebugMacinfoRef(x) => A::DebugMacinfoRef(gimli::DebugMacinfoOffset(*x as usize)),
        ValSpec::DebugMacroRef(x) => A::DebugMacroRef(gimli::DebugMacroOffset(*x as usize)),
        ValSpec::RangeListRef(l) => A::RangeListRef(c.rl_ids[*l]),
        ValSpec::DebugTypesRef(x) => A::DebugTypesRef(gimli::DebugTypeSignature(*x)),
        ValSpec::StringRef(i) => A::StringRef(c.str_ids[*i]),
        ValSpec::DebugStrRefSup(x) => A::DebugStrRefSup(gimli::DebugStrOffset(*x as usize)),
        ValSpec::LineStringRef(i) => A::LineStringRef(c.lstr_ids[*i]),
        ValSpec::String(b) => A::String(b.clone()),
        ValSpec::Encoding(x) => A::Encoding(gimli::DwAte(*x)),
        ValSpec::DecimalSign(x) => A::DecimalSign(gimli::DwDs(*x)),
        ValSpec::Endianity(x) => A::Endianity(gimli::DwEnd(*x)),
        ValSpec::Accessibility(x) => A::Accessibility(gimli::DwAccess(*x)),
        ValSpec::Visibility(x) => A::Visibility(gimli::DwVis(*x)),
        ValSpec::Virtuality(x) => A::Virtuality(gimli::DwVirtuality(*x)),
        ValSpec::Language(x) => A::Language(gimli::DwLang(*x)),
        ValSpec::AddressClass(x) => A::AddressClass(gimli::DwAddr(*x)),
        ValSpec::IdentifierCase(x) => A::IdentifierCase(gimli::DwId(*x)),
        ValSpec::CallingConvention(x) => A::CallingConvention(gimli::DwCc(*x)),
        ValSpec::Inline(x) => A::Inline(gimli::DwInl(*x)),
        ValSpec::Ordering(x) => A::Ordering(gimli::DwOrd(*x)),
        ValSpec::FileIndex(f) => A::FileIndex(f.and_then(|f| c.file_ids.get(f).copied())),
    }
}

/// Create the entries of one unit following the creation schedule.
fn build_entries(unit: &mut w::Unit, us: &UnitSpec) -> Vec<w::UnitEntryId> {
    let n = us.entries.len();
    let mut ids: Vec<Option<w::UnitEntryId>> = vec![None; n];
    ids[0] = Some(unit.root());
    for k in 1..n {
        for e in k..n {
            if us.entries[e].reserve_at == Some(k) && ids[e].is_none() {
                ids[e] = Some(unit.reserve());
            }
        }
        for p in &us.phantoms {
            if *p == k {
                let _ = unit.reserve();
            }
        }
        let parent = ids[us.entries[k].parent.min(k - 1)].unwrap_or(unit.root());
        let tag = gimli::DwTag(us.entries[k].tag);
        match ids[k] {
            Some(id) => unit.add_reserved(id, parent, tag),
            None => ids[k] = Some(unit.add(parent, tag)),
        }
    }
    for p in &us.phantoms {
        if *p >= n {
            let _ = unit.reserve();
        }
    }
    ids.into_iter().map(|x| x.unwrap_or(unit.root())).collect()
}

fn fill_unit(unit: &mut w::Unit, u: usize, spec: &CaseSpec, mode: AddrMode, ids: &Ids, str_ids: &[w::StringId], lstr_ids: &[w::LineStringId], file_ids: &[w::FileId]) {
    let us = &spec.units[u];
    let pre = pre_allowed(us);
    let rl_ids: Vec<w::RangeListId> = us.rlists.iter().map(|l| unit.ranges.add(build_rlist(l, pre, spec, mode))).collect();
    let ll_ids: Vec<w::LocationListId> = us.llists.iter().map(|l| unit.locations.add(build_llist(l, pre, u, ids, spec, mode))).collect();
    let c = UnitCtx { u, spec, mode, ids, str_ids, lstr_ids, rl_ids: &rl_ids, ll_ids: &ll_ids, file_ids };
    for (k, e) in us.entries.iter().enumerate() {
        let id = ids.entries[u][k];
        if k != 0 && e.tag != unit.get(id).tag().0 {
            // cannot happen; keeps the builder honest
        }
        unit.get_mut(id).set_sibling(e.sibling);
        for a in &e.attrs {
            let v = mk_value(&a.val, &c);
            unit.get_mut(id).set(gimli::DwAt(a.name), v);
        }
    }
    for (k, e) in us.entries.iter().enumerate() {
        if k != 0 && e.deleted {
            let parent = ids.entries[u][e.parent];
            unit.get_mut(parent).delete_child(ids.entries[u][k]);
        }
    }
}

pub fn build(spec: &CaseSpec, mode: AddrMode) -> Built {
    if spec.single {
        let us = &spec.units[0];
        let mut du = w::DwarfUnit::new(us.enc.encoding());
        let str_ids: Vec<w::StringId> = spec.strings.iter().map(|s| du.strings.add(s.clone())).collect();
        let lstr_ids: Vec<w::LineStringId> = spec.line_strings.iter().map(|s| du.line_strings.add(s.clone())).collect();
        let mut file_ids = vec![];
        if let Some(lp) = &us.line {
            let (p, f) = build_line(lp, us.enc, spec, mode, &mut du.strings, &mut du.line_strings);
            du.unit.line_program = p;
            file_ids = f;
        }
        let entries = build_entries(&mut du.unit, us);
        let ids = Ids { units: vec![], entries: vec![entries] };
        fill_unit(&mut du.unit, 0, spec, mode, &ids, &str_ids, &lstr_ids, &file_ids);
        return Built { dwarf: None, dunit: Some(du) };
    }
    let mut d = w::Dwarf::new();
    let str_ids: Vec<w::StringId> = spec.strings.iter().map(|s| d.strings.add(s.clone())).collect();
    let lstr_ids: Vec<w::LineStringId> = spec.line_strings.iter().map(|s| d.line_strings.add(s.clone())).collect();
    let mut ids = Ids { units: vec![], entries: vec![] };
    let mut files: Vec<Vec<w::FileId>> = vec![];
    for us in &spec.units {
        let (lp, f) = match &us.line {
            Some(lp) => build_line(lp, us.enc, spec, mode, &mut d.strings, &mut d.line_strings),
            None => (w::LineProgram::none(), vec![]),
        };
        let mut unit = w::Unit::new(us.enc.encoding(), lp);
        let entries = build_entries(&mut unit, us);
        ids.units.push(d.units.add(unit));
        ids.entries.push(entries);
        files.push(f);
    }
    for u in 0..spec.units.len() {
        let uid = ids.units[u];
        let unit = d.units.get_mut(uid);
        fill_unit(unit, u, spec, mode, &ids, &str_ids, &lstr_ids, &files[u]);
    }
    Built { dwarf: Some(d), dunit: None }
}

pub fn write_built<W: w::Writer>(b: &mut Built, sections: &mut w::Sections<W>) -> w::Result<()> {
    if let Some(d) = &mut b.dwarf {
        d.write(sections)
    } else if let Some(du) = &mut b.dunit {
        du.write(sections)
    } else {
        Ok(())
    }
}

// ================================================================ independent expression encoder

/// Offsets of the entries as found in the emitted `.debug_info` (by identity).
#[derive(Clone, Debug, Default)]
pub struct Offs {
    /// section offset of each unit header
    pub unit: Vec<u64>,
    /// per unit: entry index -> offset within the unit
    pub die: Vec<BTreeMap<usize, u64>>,
}

/// Sites inside an encoded expression that hold an address (`DW_OP_addr`) or a
/// `.debug_info` offset: (position, size, symbolic?)
#[derive(Clone, Debug, PartialEq, Eq)]
pub struct XSite {
    pub pos: usize,
    pub size: u8,
    pub addr_sym: Option<bool>,
}

pub fn encode_ops(ops: &[XOp], enc: Enc, u: usize, offs: &Offs, symvals: &[u64], top: bool, sites: &mut Vec<XSite>, base: usize) -> Option<Vec<u8>> {
    let v5 = enc.version >= 5;
    let mut a = Asm::new(enc.le);
    a.map = false;
    let die = |uu: usize, k: usize| -> Option<u64> { offs.die.get(uu)?.get(&k).copied() };
    let abs = |uu: usize, k: usize| -> Option<u64> { Some(offs.unit.get(uu)?.wrapping_add(die(uu, k)?)) };
    let mut starts = vec![];
    let mut branches: Vec<(usize, usize)> = vec![];
    for op in ops {
        starts.push(a.len());
        match op {
            XOp::Simple(b) => {
                a.u8(*b);
            }
            XOp::Addr(v) => {
                a.u8(0x03);
                sites.push(XSite { pos: base + a.len(), size: enc.addr, addr_sym: Some(v.sym.is_some()) });
                a.uint(enc.addr as usize, v.constant(symvals));
            }
            XOp::Constu(v) => {
                if *v < 32 {
                    a.u8(0x30 + *v as u8);
                } else {
                    a.u8(0x10).uleb(*v);
                }
            }
            XOp::Consts(v) => {
                a.u8(0x11).sleb(*v);
            }
            XOp::Fbreg(v) => {
                a.u8(0x91).sleb(*v);
            }
            XOp::Breg(r, v) => {
                if *r < 32 {
                    a.u8(0x70 + *r as u8).sleb(*v);
                } else {
                    a.u8(0x92).uleb(*r as u64).sleb(*v);
                }
            }
            XOp::Reg(r) => {
                if *r < 32 {
                    a.u8(0x50 + *r as u8);
                } else {
                    a.u8(0x90).uleb(*r as u64);
                }
            }
            XOp::Pick(i) => match *i {
                0 => {
                    a.u8(0x12);
                }
                1 => {
                    a.u8(0x14);
                }
                n => {
                    a.u8(0x15).u8(n);
                }
            },
            XOp::Deref(space) => {
                a.u8(if *space { 0x18 } else { 0x06 });
            }
            XOp::DerefSize(space, n) => {
                a.u8(if *space { 0x95 } else { 0x94 }).u8(*n);
            }
            XOp::PlusUconst(v) => {
                a.u8(0x23).uleb(*v);
            }
            XOp::Piece(v) => {
                a.u8(0x93).uleb(*v);
            }
            XOp::BitPiece(s, o) => {
                a.u8(0x9d).uleb(*s).uleb(*o);
            }
            XOp::ImplicitValue(d) => {
                a.u8(0x9e).uleb(d.len() as u64).bytes(d);
            }
            XOp::Wasm(k, i) => {
                a.u8(0xed).u8((*k).min(2)).uleb(*i as u64);
            }
            XOp::ConstType(k, d) => {
                a.u8(if v5 { 0xa4 } else { 0xf4 }).uleb(die(u, *k)?).u8(d.len() as u8).bytes(d);
            }
            XOp::RegvalType(r, k) => {
                a.u8(if v5 { 0xa5 } else { 0xf5 }).uleb(*r as u64).uleb(die(u, *k)?);
            }
            XOp::DerefType(space, n, k) => {
                a.u8(if *space { 0xa7 } else if v5 { 0xa6 } else { 0xf6 }).u8(*n).uleb(die(u, *k)?);
            }
            XOp::Convert(k) => {
                a.u8(if v5 { 0xa8 } else { 0xf7 });
                match k {
                    Some(k) => a.uleb(die(u, *k)?),
                    None => a.u8(0),
                };
            }
            XOp::Reinterpret(k) => {
                a.u8(if v5 { 0xa9 } else { 0xf9 });
                match k {
                    Some(k) => a.uleb(die(u, *k)?),
                    None => a.u8(0),
                };
            }
            XOp::Call(k) => {
                a.u8(0x99).u32(die(u, *k)? as u32);
            }
            XOp::ParameterRef(k) => {
                a.u8(0xfa).u32(die(u, *k)? as u32);
            }
            XOp::CallRef(uu, k) => {
                a.u8(0x9a);
                sites.push(XSite { pos: base + a.len(), size: enc.word(), addr_sym: None });
                a.word(enc.fmt64, abs(*uu, *k)?);
            }
            XOp::VariableValue(uu, k) => {
                a.u8(0xfd);
                sites.push(XSite { pos: base + a.len(), size: enc.word(), addr_sym: None });
                a.word(enc.fmt64, abs(*uu, *k)?);
            }
            XOp::ImplicitPointer(uu, k, off) => {
                a.u8(if v5 { 0xa0 } else { 0xf2 });
                let size = if enc.version == 2 { enc.addr } else { enc.word() };
                sites.push(XSite { pos: base + a.len(), size, addr_sym: None });
                a.uint(size as usize, abs(*uu, *k)?).sleb(*off);
            }
            XOp::EntryValue(inner) => {
                // the body's length prefix is a ULEB whose size depends on the body; encode twice
                let mut scratch = vec![];
                let body0 = encode_ops(inner, enc, u, offs, symvals, false, &mut scratch, 0)?;
                a.u8(if v5 { 0xa3 } else { 0xf3 }).uleb(body0.len() as u64);
                let body = encode_ops(inner, enc, u, offs, symvals, false, sites, base + a.len())?;
                a.bytes(&body);
            }
            XOp::Skip(t) | XOp::Bra(t) => {
                if !top {
                    return None;
                }
                branches.push((a.len(), *t));
                a.u8(if matches!(op, XOp::Skip(_)) { 0x2f } else { 0x28 }).u16(0);
            }
        }
    }
    starts.push(a.len());
    for (b, t) in branches {
        let target = starts[t.min(ops.len())] as i64;
        let disp = target - (b as i64 + 3);
        a.patch_uint(b + 1, 2, disp as i16 as u16 as u64);
    }
    Some(a.buf)
}

pub fn encode_x(x: &XSpec, enc: Enc, u: usize, offs: &Offs, symvals: &[u64], sites: &mut Vec<XSite>, base: usize) -> Option<Vec<u8>> {
    match x {
        XSpec::Raw(b) => Some(b.clone()),
        XSpec::Ops(ops) => encode_ops(ops, enc, u, offs, symvals, true, sites, base),
    }
}

/// Resolved ranges a range list denotes: (begin, end).
pub fn resolve_rlist(l: &RListSpec, us: &UnitSpec, symvals: &[u64]) -> Vec<(u64, u64)> {
    let mut v = vec![];
    if pre_allowed(us) {
        for (a, len) in &l.pre {
            let b = a.constant(symvals);
            v.push((b, b.wrapping_add(*len)));
        }
    }
    let base = l.base.constant(symvals);
    for (b, e) in &l.pairs {
        v.push((base.wrapping_add(*b), base.wrapping_add(*e)));
    }
    v
}

/// Number of list items actually emitted.
pub fn llist_items<'a>(l: &'a LListSpec, us: &UnitSpec, symvals: &[u64]) -> Vec<(u64, u64, &'a XSpec)> {
    let mut v = vec![];
    if pre_allowed(us) {
        for (a, len, x) in &l.pre {
            let b = a.constant(symvals);
            v.push((b, b.wrapping_add(*len), x));
        }
    }
    let base = l.base.constant(symvals);
    for (b, e, x) in &l.pairs {
        v.push((base.wrapping_add(*b), base.wrapping_add(*e), x));
    }
    v
}

pub fn unused(_: &mut Rng) {}

//! Hand assembler for `.debug_ranges`, `.debug_loc`, `.debug_rnglists`, `.debug_loclists`,
//! `.debug_loc.dwo` (GNU), `.debug_addr` and a minimal `.debug_info`/`.debug_abbrev` around
//! them (C08).  Written with `crate::asm` only; numeric constants are from the DWARF
//! standard, not from gimli.

use crate::asm::{uleb_bytes, uleb_padded, Asm, Enc, Field, FieldKind};
use crate::model::lists::{self as m, AddrVal, DieAttr, Flavor, Item};
use crate::rt::Rng;

// ---------------------------------------------------------------- constants (DWARF 5 ch. 7)

pub mod dwc {
    pub const TAG_COMPILE_UNIT: u64 = 0x11;
    pub const TAG_SKELETON_UNIT: u64 = 0x4a;
    pub const TAG_SUBPROGRAM: u64 = 0x2e;
    pub const TAG_VARIABLE: u64 = 0x34;
    pub const TAG_LEXICAL_BLOCK: u64 = 0x0b;

    pub const AT_LOCATION: u64 = 0x02;
    pub const AT_NAME: u64 = 0x03;
    pub const AT_LOW_PC: u64 = 0x11;
    pub const AT_HIGH_PC: u64 = 0x12;
    pub const AT_FRAME_BASE: u64 = 0x40;
    pub const AT_ENTRY_PC: u64 = 0x52;
    pub const AT_RANGES: u64 = 0x55;
    pub const AT_ADDR_BASE: u64 = 0x73;
    pub const AT_RNGLISTS_BASE: u64 = 0x74;
    pub const AT_LOCLISTS_BASE: u64 = 0x8c;
    pub const AT_GNU_DWO_ID: u64 = 0x2131;
    pub const AT_GNU_RANGES_BASE: u64 = 0x2132;
    pub const AT_GNU_ADDR_BASE: u64 = 0x2133;

    pub const FORM_ADDR: u64 = 0x01;
    pub const FORM_DATA2: u64 = 0x05;
    pub const FORM_DATA4: u64 = 0x06;
    pub const FORM_DATA8: u64 = 0x07;
    pub const FORM_STRING: u64 = 0x08;
    pub const FORM_BLOCK1: u64 = 0x0a;
    pub const FORM_DATA1: u64 = 0x0b;
    pub const FORM_FLAG: u64 = 0x0c;
    pub const FORM_SDATA: u64 = 0x0d;
    pub const FORM_UDATA: u64 = 0x0f;
    pub const FORM_SEC_OFFSET: u64 = 0x17;
    pub const FORM_EXPRLOC: u64 = 0x18;
    pub const FORM_ADDRX: u64 = 0x1b;
    pub const FORM_LOCLISTX: u64 = 0x22;
    pub const FORM_RNGLISTX: u64 = 0x23;
    pub const FORM_ADDRX1: u64 = 0x29;
    pub const FORM_ADDRX2: u64 = 0x2a;
    pub const FORM_ADDRX3: u64 = 0x2b;
    pub const FORM_ADDRX4: u64 = 0x2c;
    pub const FORM_GNU_ADDR_INDEX: u64 = 0x1f01;

    pub const UT_COMPILE: u8 = 0x01;
    pub const UT_SKELETON: u8 = 0x04;
    pub const UT_SPLIT_COMPILE: u8 = 0x05;
}

// ---------------------------------------------------------------- list entries

fn leb(a: &mut Asm, name: &'static str, v: u64, pad: usize) {
    if pad > 0 {
        let n = (uleb_bytes(v).len() + pad).min(10);
        let b = uleb_padded(v, n);
        a.f_bytes(FieldKind::Uleb, name, &b);
    } else {
        a.f_uleb(FieldKind::Uleb, name, v);
    }
}

fn expr(a: &mut Asm, flavor: Flavor, d: &Option<Vec<u8>>, pad: usize) {
    let empty = vec![];
    let d = d.as_ref().unwrap_or(&empty);
    match flavor {
        Flavor::Ranges | Flavor::Rle => {}
        Flavor::Loc | Flavor::GnuLle => {
            a.f_uint(FieldKind::Length, "expr_len16", 2, d.len() as u64);
            a.f_bytes(FieldKind::Data, "expr", d);
        }
        Flavor::Lle => {
            leb(a, "expr_len", d.len() as u64, pad);
            a.f_bytes(FieldKind::Data, "expr", d);
        }
    }
}

/// Can `it` be written in `flavor`?
pub fn encodable(it: &Item, flavor: Flavor, addr: u8) -> bool {
    let mask = m::addr_mask(addr);
    match flavor {
        Flavor::Ranges | Flavor::Loc => match it {
            Item::Pair(b, e, d) => {
                *b <= mask && *e <= mask && *b != mask && !(*b == 0 && *e == 0) && d.is_some() == (flavor == Flavor::Loc)
                    && d.as_ref().map_or(true, |d| d.len() <= 0xffff)
            }
            Item::Base(x) => *x <= mask,
            _ => false,
        },
        Flavor::Rle => match it {
            Item::Pair(..) | Item::Default(..) => false,
            Item::Base(x) => *x <= mask,
            Item::StartEnd(b, e, _) => *b <= mask && *e <= mask,
            Item::StartLength(b, _, _) => *b <= mask,
            _ => it.data().is_none(),
        },
        Flavor::Lle | Flavor::GnuLle => {
            let gnu = flavor == Flavor::GnuLle;
            if gnu && it.data().map_or(false, |d| d.len() > 0xffff) {
                return false;
            }
            match it {
                Item::Pair(..) => false,
                Item::Base(x) => *x <= mask,
                Item::Basex(_) => true,
                Item::Default(_) => true,
                Item::StartEnd(b, e, d) => *b <= mask && *e <= mask && d.is_some(),
                Item::StartLength(b, _, d) => *b <= mask && d.is_some(),
                Item::StartxLength(_, l, d) => d.is_some() && (!gnu || *l <= 0xffff_ffff),
                Item::StartxEndx(_, _, d) | Item::OffsetPair(_, _, d) => d.is_some(),
            }
        }
    }
}

/// Append one entry.  `pad` > 0 writes ULEB128 operands with that many redundant bytes.
pub fn encode_item(a: &mut Asm, it: &Item, flavor: Flavor, addr: u8, pad: usize) {
    let n = addr as usize;
    let mask = m::addr_mask(addr);
    match flavor {
        Flavor::Ranges | Flavor::Loc => match it {
            Item::Pair(b, e, d) => {
                a.f_uint(FieldKind::Address, "pair_begin", n, *b);
                a.f_uint(FieldKind::Address, "pair_end", n, *e);
                expr(a, flavor, d, 0);
            }
            Item::Base(x) => {
                a.f_uint(FieldKind::Address, "base_marker", n, mask);
                a.f_uint(FieldKind::Address, "base_addr", n, *x);
            }
            _ => panic_unencodable(it, flavor),
        },
        Flavor::Rle => match it {
            Item::Basex(i) => {
                a.f_uint(FieldKind::Opcode, "rle", 1, m::RLE_BASE_ADDRESSX as u64);
                leb(a, "index", *i, pad);
            }
            Item::StartxEndx(b, e, _) => {
                a.f_uint(FieldKind::Opcode, "rle", 1, m::RLE_STARTX_ENDX as u64);
                leb(a, "index", *b, pad);
                leb(a, "index", *e, pad);
            }
            Item::StartxLength(b, l, _) => {
                a.f_uint(FieldKind::Opcode, "rle", 1, m::RLE_STARTX_LENGTH as u64);
                leb(a, "index", *b, pad);
                leb(a, "length", *l, pad);
            }
            Item::OffsetPair(b, e, _) => {
                a.f_uint(FieldKind::Opcode, "rle", 1, m::RLE_OFFSET_PAIR as u64);
                leb(a, "offset", *b, pad);
                leb(a, "offset", *e, pad);
            }
            Item::Base(x) => {
                a.f_uint(FieldKind::Opcode, "rle", 1, m::RLE_BASE_ADDRESS as u64);
                a.f_uint(FieldKind::Address, "base_addr", n, *x);
            }
            Item::StartEnd(b, e, _) => {
                a.f_uint(FieldKind::Opcode, "rle", 1, m::RLE_START_END as u64);
                a.f_uint(FieldKind::Address, "begin", n, *b);
                a.f_uint(FieldKind::Address, "end", n, *e);
            }
            Item::StartLength(b, l, _) => {
                a.f_uint(FieldKind::Opcode, "rle", 1, m::RLE_START_LENGTH as u64);
                a.f_uint(FieldKind::Address, "begin", n, *b);
                leb(a, "length", *l, pad);
            }
            _ => panic_unencodable(it, flavor),
        },
        Flavor::Lle | Flavor::GnuLle => {
            let gnu = flavor == Flavor::GnuLle;
            match it {
                Item::Basex(i) => {
                    a.f_uint(FieldKind::Opcode, "lle", 1, m::LLE_BASE_ADDRESSX as u64);
                    leb(a, "index", *i, pad);
                }
                Item::StartxEndx(b, e, d) => {
                    a.f_uint(FieldKind::Opcode, "lle", 1, m::LLE_STARTX_ENDX as u64);
                    leb(a, "index", *b, pad);
                    leb(a, "index", *e, pad);
                    expr(a, flavor, d, pad);
                }
                Item::StartxLength(b, l, d) => {
                    a.f_uint(FieldKind::Opcode, "lle", 1, m::LLE_STARTX_LENGTH as u64);
                    leb(a, "index", *b, pad);
                    if gnu {
                        a.f_uint(FieldKind::Size, "length32", 4, *l);
                    } else {
                        leb(a, "length", *l, pad);
                    }
                    expr(a, flavor, d, pad);
                }
                Item::OffsetPair(b, e, d) => {
                    a.f_uint(FieldKind::Opcode, "lle", 1, m::LLE_OFFSET_PAIR as u64);
                    leb(a, "offset", *b, pad);
                    leb(a, "offset", *e, pad);
                    expr(a, flavor, d, pad);
                }
                Item::Default(d) => {
                    a.f_uint(FieldKind::Opcode, "lle", 1, m::LLE_DEFAULT_LOCATION as u64);
                    expr(a, flavor, &Some(d.clone()), pad);
                }
                Item::Base(x) => {
                    a.f_uint(FieldKind::Opcode, "lle", 1, m::LLE_BASE_ADDRESS as u64);
                    a.f_uint(FieldKind::Address, "base_addr", n, *x);
                }
                Item::StartEnd(b, e, d) => {
                    a.f_uint(FieldKind::Opcode, "lle", 1, m::LLE_START_END as u64);
                    a.f_uint(FieldKind::Address, "begin", n, *b);
                    a.f_uint(FieldKind::Address, "end", n, *e);
                    expr(a, flavor, d, pad);
                }
                Item::StartLength(b, l, d) => {
                    a.f_uint(FieldKind::Opcode, "lle", 1, m::LLE_START_LENGTH as u64);
                    a.f_uint(FieldKind::Address, "begin", n, *b);
                    leb(a, "length", *l, pad);
                    expr(a, flavor, d, pad);
                }
                _ => panic_unencodable(it, flavor),
            }
        }
    }
}

fn panic_unencodable(it: &Item, flavor: Flavor) -> ! {
    // generator bug: reported as HARNESS-ERROR by the framework
    panic!("gen::lists: {:?} cannot be encoded as {:?}", it.kind(), flavor)
}

pub fn encode_end(a: &mut Asm, flavor: Flavor, addr: u8) {
    match flavor {
        Flavor::Ranges | Flavor::Loc => {
            a.f_uint(FieldKind::Address, "end_begin", addr as usize, 0);
            a.f_uint(FieldKind::Address, "end_end", addr as usize, 0);
        }
        _ => {
            a.f_uint(FieldKind::Opcode, "end_of_list", 1, 0);
        }
    }
}

pub fn encode_list(a: &mut Asm, items: &[Item], flavor: Flavor, addr: u8, terminated: bool, pad: usize) {
    for it in items {
        encode_item(a, it, flavor, addr, pad);
    }
    if terminated {
        encode_end(a, flavor, addr);
    }
}

// ---------------------------------------------------------------- value generators

/// Boundary-biased address for an address size with mask `mask`.
pub fn gen_addr(r: &mut Rng, mask: u64) -> u64 {
    let v = match r.below(16) {
        0 => 0,
        1 => 1,
        2 => 2,
        3 => mask,
        4 => mask.wrapping_sub(1),
        5 => mask.wrapping_sub(2),
        6 => mask.wrapping_sub(3),
        7 => mask >> 1,
        8 => (mask >> 1).wrapping_add(1),
        9 | 10 => r.below(0x40),
        11 => mask.wrapping_sub(r.below(0x40)),
        _ => r.next(),
    };
    v & mask
}

pub const UNIT_BASES: usize = 8;
/// Unit base addresses: zero / small / near max (the property's quantifier).
pub fn unit_base(k: usize, mask: u64) -> u64 {
    (match k % UNIT_BASES {
        0 => 0,
        1 => 1,
        2 => 0x10,
        3 => mask >> 1,
        4 => mask.wrapping_sub(0x10),
        5 => mask.wrapping_sub(2),
        6 => mask.wrapping_sub(1),
        _ => mask,
    }) & mask
}

pub fn gen_expr(r: &mut Rng) -> Vec<u8> {
    let n = match r.below(20) {
        0 => 0,
        1 => 127,
        2 => 128,
        3 => 129 + r.usize(200),
        _ => 1 + r.usize(6),
    };
    r.bytes(n)
}

#[derive(Clone, Debug)]
pub struct ItemCtx<'a> {
    pub flavor: Flavor,
    pub addr: u8,
    /// entries of the address table (for index operands)
    pub addrs: &'a [u64],
    /// initial base address of the unit
    pub base: u64,
    /// allow DW_LLE_default_location/base_address/start_end/start_length in the GNU flavour
    pub gnu_v5_kinds: bool,
}

fn gen_index(r: &mut Rng, n: usize) -> u64 {
    if n == 0 {
        return r.below(3);
    }
    match r.below(40) {
        0 => n as u64,           // first slot past the table
        1 => n as u64 + r.below(5),
        2 => r.boundary(),       // hostile
        _ => r.below(n as u64),
    }
}

/// A (begin, end) pair of absolute addresses, biased to the filter's boundaries.
fn gen_range(r: &mut Rng, mask: u64) -> (u64, u64) {
    let b = gen_addr(r, mask);
    let e = match r.below(10) {
        0 => b,                                        // empty
        1 => b.wrapping_sub(1 + r.below(4)) & mask,    // inverted
        2 => mask,
        3 => mask.wrapping_sub(1),
        4 => gen_addr(r, mask),
        _ => b.wrapping_add(1 + r.below(0x100)) & mask,
    };
    (b, e)
}

fn gen_length(r: &mut Rng, b: u64, mask: u64) -> u64 {
    match r.below(12) {
        0 => 0,
        1 => 1,
        2 => mask.wrapping_sub(b),                 // end = mask
        3 => mask.wrapping_sub(b).wrapping_add(1), // wraps to 0
        4 => mask.wrapping_sub(b).wrapping_add(2 + r.below(5)),
        5 => u64::MAX,
        6 => mask,
        7 => r.boundary(),
        _ => 1 + r.below(0x1000),
    }
}

/// `n` random entries for `cx.flavor`; the running base is tracked so that offset pairs hit
/// the interesting sums.
pub fn gen_items(r: &mut Rng, cx: &ItemCtx, n: usize) -> Vec<Item> {
    let mask = m::addr_mask(cx.addr);
    let tomb = m::tombstone(cx.addr);
    let is_loc = cx.flavor.is_loc();
    let mut base = cx.base;
    let mut out = Vec::with_capacity(n);
    let data = |r: &mut Rng| if is_loc { Some(gen_expr(r)) } else { None };
    while out.len() < n {
        let it = match cx.flavor {
            Flavor::Ranges | Flavor::Loc => {
                if r.chance(1, 6) {
                    let a = gen_addr(r, mask);
                    base = a;
                    Item::Base(a)
                } else {
                    // offsets relative to the running base
                    let (tb, te) = gen_range(r, mask);
                    let (b, e) = if r.chance(3, 4) {
                        (tb.wrapping_sub(base) & mask, te.wrapping_sub(base) & mask)
                    } else {
                        (tb, te)
                    };
                    if b == mask || (b == 0 && e == 0) {
                        continue;
                    }
                    Item::Pair(b, e, data(r))
                }
            }
            Flavor::Rle | Flavor::Lle | Flavor::GnuLle => {
                let gnu = cx.flavor == Flavor::GnuLle;
                let nk = if cx.flavor == Flavor::Rle { 7 } else { 8 };
                let k = r.below(nk);
                // kinds: 0 basex 1 startx_endx 2 startx_length 3 offset_pair 4 base_address
                //        5 start_end 6 start_length 7 default_location
                if gnu && !cx.gnu_v5_kinds && k >= 4 {
                    continue;
                }
                match k {
                    0 => {
                        let i = gen_index(r, cx.addrs.len());
                        if let Some(a) = cx.addrs.get(i as usize) {
                            base = *a;
                        }
                        Item::Basex(i)
                    }
                    1 => Item::StartxEndx(gen_index(r, cx.addrs.len()), gen_index(r, cx.addrs.len()), data(r)),
                    2 => {
                        let i = gen_index(r, cx.addrs.len());
                        let b = cx.addrs.get(i as usize).copied().unwrap_or(0);
                        let mut l = gen_length(r, b, mask);
                        if gnu {
                            l &= 0xffff_ffff;
                        }
                        Item::StartxLength(i, l, data(r))
                    }
                    3 => {
                        let (tb, te) = gen_range(r, mask);
                        let (mut b, mut e) = match r.below(8) {
                            0 => (tb, te),
                            1 => (tb.wrapping_sub(base), te.wrapping_sub(base)), // 64-bit wrap
                            2 => (r.boundary(), r.boundary()),
                            _ => (tb.wrapping_sub(base) & mask, te.wrapping_sub(base) & mask),
                        };
                        if base >= tomb && r.chance(1, 2) {
                            b = r.below(0x20);
                            e = b + 1 + r.below(0x20);
                        }
                        Item::OffsetPair(b, e, data(r))
                    }
                    4 => {
                        let a = gen_addr(r, mask);
                        base = a;
                        Item::Base(a)
                    }
                    5 => {
                        let (b, e) = gen_range(r, mask);
                        Item::StartEnd(b, e, data(r))
                    }
                    6 => {
                        let b = gen_addr(r, mask);
                        Item::StartLength(b, gen_length(r, b, mask), data(r))
                    }
                    _ => Item::Default(gen_expr(r)),
                }
            }
        };
        out.push(it);
    }
    out
}

// ---------------------------------------------------------------- .debug_addr

#[derive(Clone, Debug, Default)]
pub struct AddrTable {
    pub bytes: Vec<u8>,
    /// value for DW_AT_addr_base
    pub base: u64,
    pub entries: Vec<u64>,
}

/// `n` boundary-biased table entries (every third one is a distinguishable plain value).
pub fn gen_addr_entries(r: &mut Rng, mask: u64, n: usize) -> Vec<u64> {
    (0..n).map(|i| if i % 3 == 0 { (0x20 + 0x10 * i as u64) & mask } else { gen_addr(r, mask) }).collect()
}

/// `.debug_addr` holding `entries`.  `layout`: 0 = bare entries at offset 0, 1 = DWARF 5
/// header then entries, 2 = an unrelated first table, then header and entries, 3 = a few
/// junk bytes (unaligned base) then entries.
pub fn build_addr_table(r: &mut Rng, enc: Enc, layout: u64, entries: &[u64]) -> AddrTable {
    let mut a = Asm::new(enc.le);
    a.map = false;
    let header = |a: &mut Asm, count: usize| {
        // unit_length, version, address_size, segment_selector_size
        let len = 4 + count as u64 * enc.addr as u64;
        if enc.fmt64 {
            a.u32(0xffff_ffff);
            a.u64(len);
        } else {
            a.u32(len as u32);
        }
        a.u16(5);
        a.u8(enc.addr);
        a.u8(0);
    };
    match layout % 4 {
        0 => {}
        1 => header(&mut a, entries.len()),
        2 => {
            let k = 1 + r.usize(3);
            header(&mut a, k);
            for _ in 0..k {
                let v = r.next();
                a.uint(enc.addr as usize, v);
            }
            header(&mut a, entries.len());
        }
        _ => {
            let k = 1 + r.usize(7);
            let j = r.bytes(k);
            a.bytes(&j);
        }
    }
    let base = a.len() as u64;
    for v in entries {
        a.uint(enc.addr as usize, *v);
    }
    AddrTable { bytes: a.buf, base, entries: entries.to_vec() }
}

// ---------------------------------------------------------------- list sections

#[derive(Clone, Debug)]
pub struct PlacedList {
    /// section offset of the first entry
    pub off: u64,
    pub items: Vec<Item>,
    pub terminated: bool,
}

#[derive(Clone, Debug, Default)]
pub struct ListSec {
    pub bytes: Vec<u8>,
    pub fields: Vec<Field>,
    pub lists: Vec<PlacedList>,
    /// v5: section offset of the offsets table (the value of DW_AT_rnglists_base /
    /// DW_AT_loclists_base); 0 for the legacy sections
    pub table_base: u64,
    /// v5: number of entries in the offsets table (entry i -> lists[i])
    pub table_len: usize,
}

/// Lay out `lists` in one section.  Legacy flavours: optional junk prefix, lists back to
/// back.  v5 flavours: `pre_tables` unrelated tables first, then a table header
/// (unit_length, version 5, address_size, segment_selector_size 0, offset_entry_count), the
/// offsets (relative to the first offset's position) and the lists.  Only the last list may
/// be unterminated.
pub fn build_list_section(
    r: &mut Rng,
    enc: Enc,
    flavor: Flavor,
    lists: &[(Vec<Item>, bool)],
    pre_tables: usize,
    with_table: bool,
    pad: usize,
) -> ListSec {
    let mut a = Asm::new(enc.le);
    let mut out = ListSec::default();
    let v5 = matches!(flavor, Flavor::Rle | Flavor::Lle);
    if !v5 {
        if pre_tables > 0 {
            // junk in front so that list offsets are not 0 (and not aligned)
            let k = 1 + r.usize(2 * enc.addr as usize + 3);
            let j = r.bytes(k);
            a.f_bytes(FieldKind::Data, "junk", &j);
        }
        for (i, (items, term)) in lists.iter().enumerate() {
            let term = *term || i + 1 != lists.len();
            out.lists.push(PlacedList { off: a.len() as u64, items: items.clone(), terminated: term });
            encode_list(&mut a, items, flavor, enc.addr, term, pad);
        }
        out.bytes = a.buf;
        out.fields = a.fields;
        return out;
    }
    for _ in 0..pre_tables {
        let mk = a.begin_length(enc.fmt64);
        a.u16(5);
        a.u8(enc.addr);
        a.u8(0);
        let k = r.below(3);
        a.u32(k as u32);
        for _ in 0..k {
            a.word(enc.fmt64, 0);
        }
        a.u8(0);
        a.end_length(mk);
    }
    let mk = a.begin_length(enc.fmt64);
    a.f_uint(FieldKind::Version, "version", 2, 5);
    a.f_uint(FieldKind::Size, "address_size", 1, enc.addr as u64);
    a.f_uint(FieldKind::Size, "segment_selector_size", 1, 0);
    let n_tab = if with_table { lists.len() } else { 0 };
    a.f_uint(FieldKind::Count, "offset_entry_count", 4, n_tab as u64);
    out.table_base = a.len() as u64;
    out.table_len = n_tab;
    let w = enc.word() as usize;
    let tab_pos = a.len();
    for _ in 0..n_tab {
        a.f_uint(FieldKind::Offset, "offset_entry", w, 0);
    }
    for (i, (items, term)) in lists.iter().enumerate() {
        let term = *term || i + 1 != lists.len();
        let off = a.len();
        out.lists.push(PlacedList { off: off as u64, items: items.clone(), terminated: term });
        if with_table {
            a.patch_uint(tab_pos + i * w, w, (off - tab_pos) as u64);
        }
        encode_list(&mut a, items, flavor, enc.addr, term, pad);
    }
    a.end_length(mk);
    out.bytes = a.buf;
    out.fields = a.fields;
    out
}

// ---------------------------------------------------------------- minimal unit

#[derive(Clone, Debug, PartialEq)]
pub enum FormVal {
    /// fixed-size unsigned integer of n bytes
    Uint(usize, u64),
    Uleb(u64),
    Sleb(i64),
    /// offset-sized word
    Word(u64),
    /// address-sized
    Addr(u64),
    /// ULEB128 length + bytes (exprloc, block)
    Block(Vec<u8>),
    /// 1-byte length + bytes (block1)
    Block1(Vec<u8>),
    /// NUL-terminated string
    Str(Vec<u8>),
}

#[derive(Clone, Debug)]
pub struct AttrSpec {
    pub name: u64,
    pub form: u64,
    pub val: FormVal,
}

#[derive(Clone, Debug)]
pub struct DieSpec {
    pub tag: u64,
    pub attrs: Vec<AttrSpec>,
}

#[derive(Clone, Debug, Default)]
pub struct BuiltUnit {
    pub info: Vec<u8>,
    pub abbrev: Vec<u8>,
}

/// One unit: root DIE with `children` (flat) below it.  `unit_type` is used for version 5
/// only (`dwo_id` is emitted for skeleton / split_compile).
pub fn build_unit(enc: Enc, unit_type: u8, dwo_id: u64, root: &DieSpec, children: &[DieSpec]) -> BuiltUnit {
    let mut ab = Asm::new(enc.le);
    ab.map = false;
    let mut a = Asm::new(enc.le);
    a.map = false;
    let mk = a.begin_length(enc.fmt64);
    a.u16(enc.version);
    if enc.version >= 5 {
        a.u8(unit_type);
        a.u8(enc.addr);
        a.word(enc.fmt64, 0);
        if unit_type == dwc::UT_SKELETON || unit_type == dwc::UT_SPLIT_COMPILE {
            a.u64(dwo_id);
        }
    } else {
        a.word(enc.fmt64, 0);
        a.u8(enc.addr);
    }
    let mut code = 0u64;
    let mut emit = |a: &mut Asm, ab: &mut Asm, d: &DieSpec, has_children: bool| {
        code += 1;
        ab.uleb(code);
        ab.uleb(d.tag);
        ab.u8(has_children as u8);
        a.uleb(code);
        for at in &d.attrs {
            ab.uleb(at.name);
            ab.uleb(at.form);
            match &at.val {
                FormVal::Uint(n, v) => {
                    a.uint(*n, *v);
                }
                FormVal::Uleb(v) => {
                    a.uleb(*v);
                }
                FormVal::Sleb(v) => {
                    a.sleb(*v);
                }
                FormVal::Word(v) => {
                    a.word(enc.fmt64, *v);
                }
                FormVal::Addr(v) => {
                    a.uint(enc.addr as usize, *v);
                }
                FormVal::Block(b) => {
                    a.uleb(b.len() as u64);
                    a.bytes(b);
                }
                FormVal::Block1(b) => {
                    a.u8(b.len() as u8);
                    a.bytes(b);
                }
                FormVal::Str(s) => {
                    a.cstr(s);
                }
            }
        }
        ab.uleb(0);
        ab.uleb(0);
    };
    emit(&mut a, &mut ab, root, !children.is_empty());
    for c in children {
        emit(&mut a, &mut ab, c, false);
    }
    if !children.is_empty() {
        a.u8(0);
    }
    ab.uleb(0);
    a.end_length(mk);
    BuiltUnit { info: a.buf, abbrev: ab.buf }
}

// ---------------------------------------------------------------- attribute builders

/// Address-class attribute in a form fitting `enc.version`: returns the spec and the model
/// value.  `idx`: use an index form with this index; otherwise DW_FORM_addr.
pub fn addr_attr(r: &mut Rng, enc: Enc, name: u64, direct: u64, idx: Option<u64>) -> (AttrSpec, AddrVal) {
    match idx {
        None => (AttrSpec { name, form: dwc::FORM_ADDR, val: FormVal::Addr(direct) }, AddrVal::Direct(direct)),
        Some(i) => {
            let spec = if enc.version < 5 {
                AttrSpec { name, form: dwc::FORM_GNU_ADDR_INDEX, val: FormVal::Uleb(i) }
            } else {
                // the smallest fixed form that holds the index, or the ULEB form
                let mut forms: Vec<(u64, FormVal)> = vec![(dwc::FORM_ADDRX, FormVal::Uleb(i))];
                if i <= 0xff {
                    forms.push((dwc::FORM_ADDRX1, FormVal::Uint(1, i)));
                }
                if i <= 0xffff {
                    forms.push((dwc::FORM_ADDRX2, FormVal::Uint(2, i)));
                }
                if i <= 0xff_ffff {
                    forms.push((dwc::FORM_ADDRX3, FormVal::Uint(3, i)));
                }
                if i <= 0xffff_ffff {
                    forms.push((dwc::FORM_ADDRX4, FormVal::Uint(4, i)));
                }
                let (form, val) = forms[r.usize(forms.len())].clone();
                AttrSpec { name, form, val }
            };
            (spec, AddrVal::Index(i))
        }
    }
}

/// Section-offset class attribute (`DW_FORM_sec_offset`; `DW_FORM_data4`/`data8` in
/// versions 2 and 3).
pub fn secoff_attr(enc: Enc, name: u64, off: u64) -> AttrSpec {
    if enc.version <= 3 {
        if enc.fmt64 {
            AttrSpec { name, form: dwc::FORM_DATA8, val: FormVal::Uint(8, off) }
        } else {
            AttrSpec { name, form: dwc::FORM_DATA4, val: FormVal::Uint(4, off) }
        }
    } else {
        AttrSpec { name, form: dwc::FORM_SEC_OFFSET, val: FormVal::Word(off) }
    }
}

/// A base attribute (DW_AT_addr_base, DW_AT_rnglists_base, ... and their GNU forerunners):
/// always DW_FORM_sec_offset.
pub fn base_attr(name: u64, off: u64) -> AttrSpec {
    AttrSpec { name, form: dwc::FORM_SEC_OFFSET, val: FormVal::Word(off) }
}

pub const HIGH_PC_FORMS: [&str; 10] = ["absent", "addr", "addrx", "data1", "data2", "data4", "data8", "udata", "sdata", "sdata_neg"];

/// DW_AT_high_pc in the form class `which` (see `HIGH_PC_FORMS`) describing the end address
/// `low + size` (constant forms) or `end` (address forms).
pub fn high_pc_attr(r: &mut Rng, enc: Enc, which: &str, end: u64, end_idx: u64, size: u64) -> Option<(AttrSpec, DieAttr)> {
    let name = dwc::AT_HIGH_PC;
    Some(match which {
        "absent" => return None,
        "addr" => {
            let (s, v) = addr_attr(r, enc, name, end, None);
            (s, DieAttr::HighPcAddr(v))
        }
        "addrx" => {
            let (s, v) = addr_attr(r, enc, name, 0, Some(end_idx));
            (s, DieAttr::HighPcAddr(v))
        }
        "data1" => (AttrSpec { name, form: dwc::FORM_DATA1, val: FormVal::Uint(1, size & 0xff) }, DieAttr::HighPcOffset(size & 0xff)),
        "data2" => (AttrSpec { name, form: dwc::FORM_DATA2, val: FormVal::Uint(2, size & 0xffff) }, DieAttr::HighPcOffset(size & 0xffff)),
        "data4" => (AttrSpec { name, form: dwc::FORM_DATA4, val: FormVal::Uint(4, size & 0xffff_ffff) }, DieAttr::HighPcOffset(size & 0xffff_ffff)),
        "data8" => (AttrSpec { name, form: dwc::FORM_DATA8, val: FormVal::Uint(8, size) }, DieAttr::HighPcOffset(size)),
        "udata" => (AttrSpec { name, form: dwc::FORM_UDATA, val: FormVal::Uleb(size) }, DieAttr::HighPcOffset(size)),
        "sdata" => {
            let s = size & (i64::MAX as u64);
            (AttrSpec { name, form: dwc::FORM_SDATA, val: FormVal::Sleb(s as i64) }, DieAttr::HighPcOffset(s))
        }
        _ => {
            let s = -1 - (size & 0xffff) as i64;
            (AttrSpec { name, form: dwc::FORM_SDATA, val: FormVal::Sleb(s) }, DieAttr::HighPcNegative)
        }
    })
}

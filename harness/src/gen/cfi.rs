//! Hand assembler for `.debug_frame`, `.eh_frame` and `.eh_frame_hdr` with a field map and
//! the model of what was encoded.  Written independently of `gimli::write`.
//!
//! # Public API (used by C05, C06; meant for reuse by C14 and C20)
//!
//! Instructions:
//! * [`Ins`] — one call-frame instruction *with its encoding choice* (inline / extended /
//!   loc1/2/4 ...), every DW_CFA opcode, plus [`Ins::Raw`] for bytes that must be rejected.
//!   [`Ins::for_opcode_byte`] maps each of the 256 opcode bytes to an instruction with the
//!   given operands.  `emit` appends the bytes and returns the model instruction
//!   ([`crate::model::cfi::Insn`]).
//!
//! Sections:
//! * [`SectionSpec`] `{ kind, le, addr_size, aarch64, bases, items }` with
//!   [`Item`]`::{Cie(CieSpec), Fde(FdeSpec), ZeroLength{fmt64}, Junk(bytes)}`.
//! * [`CieSpec`] — version 1/3/4, 32/64-bit entry, raw augmentation string (any subset and
//!   order of `zLPRS`, or deliberately malformed), v4 address/segment size, factors, return
//!   register, encodings for L/P/R, personality raw value, initial instructions, padding.
//! * [`FdeSpec`] — index of its CIE item, initial address (target, encoded under the CIE's
//!   'R' encoding) and range, LSDA target, instructions, padding.
//! * [`build`]`(&SectionSpec)` → [`Built`] `{ bytes, fields, entries }`; [`Entry`] is the
//!   model of one entry ([`CieModel`] / [`FdeModel`]): offsets, lengths and every decoded
//!   field, computed with `model::cfi::pe_decode` on the emitted bytes.
//! * [`Built::program`] — the `model::cfi::Program` of one FDE (for the row interpreter).
//!
//! `.eh_frame_hdr`:
//! * [`HdrSpec`] + [`build_hdr`] → [`HdrBuilt`] (bytes, decoded eh_frame_ptr, decoded sorted
//!   table) for every pointer encoding of the three header fields.
//!
//! Pointer encoding helpers: [`pe_encode_raw`] (emit a raw value in a format),
//! [`pe_encode_target`] (find the raw value that decodes to a target under a base, if the
//! format can represent it), [`aug_strings`] (the 65 strings `z` + permutation of a subset
//! of `LPRS`).

use crate::asm::{sleb_bytes, uleb_bytes, Asm, Field, FieldKind};
use crate::model::cfi::{self as m, addr_mask, Bases, CfiError, Insn, PeErr, Ptr};

// ---------------------------------------------------------------- pointer encoding (emit)

/// Emit `raw` in the format nibble of `enc` (truncating to the width). LEB formats take the
/// value as u64 (uleb) / i64 (sleb).
pub fn pe_encode_raw(enc: u8, raw: u64, le: bool, addr_size: u8) -> Vec<u8> {
    let mut a = Asm::new(le);
    match enc & 0x0f {
        0x00 => {
            a.uint((addr_size as usize).min(8), raw);
        }
        0x01 => {
            a.uleb(raw);
        }
        0x02 | 0x0a => {
            a.uint(2, raw);
        }
        0x03 | 0x0b => {
            a.uint(4, raw);
        }
        0x04 | 0x0c => {
            a.uint(8, raw);
        }
        0x09 => {
            a.sleb(raw as i64);
        }
        // unknown formats: emit 8 bytes so that a (wrong) acceptance has something to read
        _ => {
            a.uint(8, raw);
        }
    }
    a.buf
}

/// Base address an encoding applies, for a pointer field at section offset `pos`.
/// `Err` when the base is missing / the application is unsupported.
pub fn pe_base(enc: u8, pos: u64, bases: &Bases, addr_size: u8) -> Result<u64, PeErr> {
    match (enc >> 4) & 7 {
        0 => Ok(0),
        1 => Ok(bases.section.ok_or(PeErr::NoSectionBase)?.wrapping_add(pos) & addr_mask(addr_size)),
        2 => bases.text.ok_or(PeErr::NoTextBase),
        3 => bases.data.ok_or(PeErr::NoDataBase),
        4 => bases.func.ok_or(PeErr::NoFuncBase),
        _ => Err(PeErr::Unsupported(enc)),
    }
}

/// Bytes that decode to `target` (mod 2^address bits) under `enc` at `pos`, or `None` when
/// the base is missing or the format cannot represent the needed offset.
pub fn pe_encode_target(enc: u8, target: u64, le: bool, pos: u64, bases: &Bases, addr_size: u8) -> Option<Vec<u8>> {
    if !m::pe_is_valid(enc) || enc == m::PE_OMIT {
        return None;
    }
    let base = pe_base(enc, pos, bases, addr_size).ok()?;
    let mask = addr_mask(addr_size);
    let abits = 8 * (addr_size as u32).min(8);
    if abits == 0 {
        return None;
    }
    let raw = target.wrapping_sub(base) & mask;
    // signed view of raw as an abits-bit number
    let sraw: i64 = if abits >= 64 { raw as i64 } else if raw >> (abits - 1) & 1 == 1 { (raw | !mask) as i64 } else { raw as i64 };
    let fmt = enc & 0x0f;
    let (w, signed) = match fmt {
        0x00 => (abits, false),
        0x01 => (64, false),
        0x02 => (16, false),
        0x03 => (32, false),
        0x04 => (64, false),
        0x09 => (64, true),
        0x0a => (16, true),
        0x0b => (32, true),
        0x0c => (64, true),
        _ => return None,
    };
    if w < abits {
        if signed {
            let lo = -(1i64 << (w - 1));
            let hi = (1i64 << (w - 1)) - 1;
            if sraw < lo || sraw > hi {
                return None;
            }
        } else if raw >> w != 0 {
            return None;
        }
    }
    let v = if signed { sraw as u64 } else { raw };
    Some(pe_encode_raw(enc, v, le, addr_size))
}

fn encode_ptr(raw_mode: bool, enc: u8, target: u64, le: bool, pos: u64, bases: &Bases, addr_size: u8) -> Vec<u8> {
    if !raw_mode {
        if let Some(b) = pe_encode_target(enc, target, le, pos, bases, addr_size) {
            return b;
        }
    }
    pe_encode_raw(enc, target, le, addr_size)
}

/// `z` followed by every permutation of every subset of `LPRS` (65 strings).
pub fn aug_strings() -> Vec<Vec<u8>> {
    let letters = [b'L', b'P', b'R', b'S'];
    let mut out: Vec<Vec<u8>> = vec![];
    // iterative enumeration of arrangements
    let mut stack: Vec<Vec<u8>> = vec![vec![]];
    while let Some(cur) = stack.pop() {
        let mut s = vec![b'z'];
        s.extend_from_slice(&cur);
        out.push(s);
        for l in letters {
            if !cur.contains(&l) {
                let mut n = cur.clone();
                n.push(l);
                stack.push(n);
            }
        }
    }
    out.sort();
    out
}

// ---------------------------------------------------------------- instructions

#[derive(Clone, Debug, PartialEq, Eq)]
pub enum Ins {
    /// DW_CFA_advance_loc, delta < 0x40 in the opcode byte
    AdvanceLoc(u8),
    AdvanceLoc1(u8),
    AdvanceLoc2(u16),
    AdvanceLoc4(u32),
    /// DW_CFA_set_loc to this target address (encoded as the context demands: plain address,
    /// or the CIE's 'R' encoding inside an FDE; falls back to truncation if unrepresentable)
    SetLoc(u64),
    /// DW_CFA_offset, register < 0x40 in the opcode byte
    Offset(u8, u64),
    OffsetExtended(u64, u64),
    OffsetExtendedSf(u64, i64),
    /// DW_CFA_restore, register < 0x40 in the opcode byte
    Restore(u8),
    RestoreExtended(u64),
    Undefined(u64),
    SameValue(u64),
    Register(u64, u64),
    RememberState,
    RestoreState,
    DefCfa(u64, u64),
    DefCfaSf(u64, i64),
    DefCfaRegister(u64),
    DefCfaOffset(u64),
    DefCfaOffsetSf(i64),
    DefCfaExpression(Vec<u8>),
    Expression(u64, Vec<u8>),
    ValExpression(u64, Vec<u8>),
    ValOffset(u64, u64),
    ValOffsetSf(u64, i64),
    ArgsSize(u64),
    /// opcode 0x2d: DW_CFA_AARCH64_negate_ra_state under the AArch64 vendor, unknown otherwise
    NegateRaState,
    Nop,
    /// arbitrary bytes that the decoder must reject with `expect`
    Raw { bytes: Vec<u8>, expect: CfiError },
}

/// Context of an instruction stream.
#[derive(Clone, Copy, Debug)]
pub struct EmitEnv {
    pub in_fde: bool,
    /// the CIE's 'R' encoding (applies to set_loc inside FDEs only)
    pub fde_enc: Option<u8>,
    pub addr_size: u8,
    pub le: bool,
    pub bases: Bases,
    pub aarch64: bool,
}

fn reg(r: u64) -> Result<u16, CfiError> {
    if r > 0xffff {
        Err(CfiError::UnsupportedRegister(r))
    } else {
        Ok(r as u16)
    }
}

impl Ins {
    /// Append the encoding to `a`; returns the model instruction.
    pub fn emit(&self, a: &mut Asm, env: &EmitEnv) -> Insn {
        macro_rules! r {
            ($e:expr) => {
                match reg($e) {
                    Ok(x) => x,
                    Err(e) => return Insn::Invalid(e),
                }
            };
        }
        let op = |a: &mut Asm, b: u8| {
            a.f_uint(FieldKind::Opcode, "cfa_opcode", 1, b as u64);
        };
        match self {
            Ins::AdvanceLoc(d) => {
                op(a, 0x40 | (d & 0x3f));
                Insn::AdvanceLoc((d & 0x3f) as u32)
            }
            Ins::AdvanceLoc1(d) => {
                op(a, 0x02);
                a.u8(*d);
                Insn::AdvanceLoc(*d as u32)
            }
            Ins::AdvanceLoc2(d) => {
                op(a, 0x03);
                a.u16(*d);
                Insn::AdvanceLoc(*d as u32)
            }
            Ins::AdvanceLoc4(d) => {
                op(a, 0x04);
                a.u32(*d);
                Insn::AdvanceLoc(*d)
            }
            Ins::SetLoc(target) => {
                op(a, 0x01);
                let pos = a.len() as u64;
                let enc = if env.in_fde { env.fde_enc } else { None };
                match enc {
                    None => {
                        a.f_uint(FieldKind::Address, "set_loc", (env.addr_size as usize).min(8), *target);
                        Insn::SetLoc(Ok(*target & addr_mask(env.addr_size)))
                    }
                    Some(e) => {
                        // no function base inside instruction streams
                        let b = Bases { func: None, ..env.bases };
                        let bytes = pe_encode_target(e, *target, env.le, pos, &b, env.addr_size)
                            .unwrap_or_else(|| pe_encode_raw(e, *target, env.le, env.addr_size));
                        a.f_bytes(FieldKind::Address, "set_loc", &bytes);
                        let d = m::pe_decode(e, &bytes, env.le, pos, &b, env.addr_size).and_then(|(p, _)| p.direct());
                        Insn::SetLoc(d)
                    }
                }
            }
            Ins::Offset(rg, o) => {
                op(a, 0x80 | (rg & 0x3f));
                a.f_uleb(FieldKind::Uleb, "offset", *o);
                Insn::Offset { reg: (rg & 0x3f) as u16, off: *o }
            }
            Ins::OffsetExtended(rg, o) => {
                op(a, 0x05);
                a.uleb(*rg);
                a.uleb(*o);
                Insn::Offset { reg: r!(*rg), off: *o }
            }
            Ins::OffsetExtendedSf(rg, o) => {
                op(a, 0x11);
                a.uleb(*rg);
                a.sleb(*o);
                Insn::OffsetSf { reg: r!(*rg), off: *o }
            }
            Ins::Restore(rg) => {
                op(a, 0xc0 | (rg & 0x3f));
                Insn::Restore((rg & 0x3f) as u16)
            }
            Ins::RestoreExtended(rg) => {
                op(a, 0x06);
                a.uleb(*rg);
                Insn::Restore(r!(*rg))
            }
            Ins::Undefined(rg) => {
                op(a, 0x07);
                a.uleb(*rg);
                Insn::Undefined(r!(*rg))
            }
            Ins::SameValue(rg) => {
                op(a, 0x08);
                a.uleb(*rg);
                Insn::SameValue(r!(*rg))
            }
            Ins::Register(d, s) => {
                op(a, 0x09);
                a.uleb(*d);
                a.uleb(*s);
                let d = r!(*d);
                Insn::Register { dst: d, src: r!(*s) }
            }
            Ins::RememberState => {
                op(a, 0x0a);
                Insn::RememberState
            }
            Ins::RestoreState => {
                op(a, 0x0b);
                Insn::RestoreState
            }
            Ins::DefCfa(rg, o) => {
                op(a, 0x0c);
                a.uleb(*rg);
                a.uleb(*o);
                Insn::DefCfa { reg: r!(*rg), off: *o }
            }
            Ins::DefCfaSf(rg, o) => {
                op(a, 0x12);
                a.uleb(*rg);
                a.sleb(*o);
                Insn::DefCfaSf { reg: r!(*rg), off: *o }
            }
            Ins::DefCfaRegister(rg) => {
                op(a, 0x0d);
                a.uleb(*rg);
                Insn::DefCfaRegister(r!(*rg))
            }
            Ins::DefCfaOffset(o) => {
                op(a, 0x0e);
                a.uleb(*o);
                Insn::DefCfaOffset(*o)
            }
            Ins::DefCfaOffsetSf(o) => {
                op(a, 0x13);
                a.sleb(*o);
                Insn::DefCfaOffsetSf(*o)
            }
            Ins::DefCfaExpression(e) => {
                op(a, 0x0f);
                a.f_uleb(FieldKind::Length, "expr_len", e.len() as u64);
                let off = a.len() as u64;
                a.bytes(e);
                Insn::DefCfaExpression { off, len: e.len() as u64 }
            }
            Ins::Expression(rg, e) => {
                op(a, 0x10);
                a.uleb(*rg);
                a.f_uleb(FieldKind::Length, "expr_len", e.len() as u64);
                let off = a.len() as u64;
                a.bytes(e);
                Insn::Expression { reg: r!(*rg), off, len: e.len() as u64 }
            }
            Ins::ValExpression(rg, e) => {
                op(a, 0x16);
                a.uleb(*rg);
                a.f_uleb(FieldKind::Length, "expr_len", e.len() as u64);
                let off = a.len() as u64;
                a.bytes(e);
                Insn::ValExpression { reg: r!(*rg), off, len: e.len() as u64 }
            }
            Ins::ValOffset(rg, o) => {
                op(a, 0x14);
                a.uleb(*rg);
                a.uleb(*o);
                Insn::ValOffset { reg: r!(*rg), off: *o }
            }
            Ins::ValOffsetSf(rg, o) => {
                op(a, 0x15);
                a.uleb(*rg);
                a.sleb(*o);
                Insn::ValOffsetSf { reg: r!(*rg), off: *o }
            }
            Ins::ArgsSize(s) => {
                op(a, 0x2e);
                a.uleb(*s);
                Insn::ArgsSize(*s)
            }
            Ins::NegateRaState => {
                op(a, 0x2d);
                if env.aarch64 {
                    Insn::NegateRaState
                } else {
                    Insn::Invalid(CfiError::UnknownInstruction(0x2d))
                }
            }
            Ins::Nop => {
                op(a, 0x00);
                Insn::Nop
            }
            Ins::Raw { bytes, expect } => {
                a.bytes(bytes);
                Insn::Invalid(expect.clone())
            }
        }
    }

    /// The instruction that opcode byte `b` starts, with operands taken from `x`, `y`
    /// (register / unsigned operand / signed operand as the opcode needs).  Bytes that are
    /// not a DW_CFA opcode become `Raw` with the `UnknownInstruction` expectation.
    pub fn for_opcode_byte(b: u8, x: u64, y: u64) -> Ins {
        match b >> 6 {
            1 => return Ins::AdvanceLoc(b & 0x3f),
            2 => return Ins::Offset(b & 0x3f, y),
            3 => return Ins::Restore(b & 0x3f),
            _ => {}
        }
        match b {
            0x00 => Ins::Nop,
            0x01 => Ins::SetLoc(y),
            0x02 => Ins::AdvanceLoc1(y as u8),
            0x03 => Ins::AdvanceLoc2(y as u16),
            0x04 => Ins::AdvanceLoc4(y as u32),
            0x05 => Ins::OffsetExtended(x, y),
            0x06 => Ins::RestoreExtended(x),
            0x07 => Ins::Undefined(x),
            0x08 => Ins::SameValue(x),
            0x09 => Ins::Register(x, y & 0xffff),
            0x0a => Ins::RememberState,
            0x0b => Ins::RestoreState,
            0x0c => Ins::DefCfa(x, y),
            0x0d => Ins::DefCfaRegister(x),
            0x0e => Ins::DefCfaOffset(y),
            0x0f => Ins::DefCfaExpression(vec![0x96; (y % 5) as usize]),
            0x10 => Ins::Expression(x, vec![0x96; (y % 5) as usize]),
            0x11 => Ins::OffsetExtendedSf(x, y as i64),
            0x12 => Ins::DefCfaSf(x, y as i64),
            0x13 => Ins::DefCfaOffsetSf(y as i64),
            0x14 => Ins::ValOffset(x, y),
            0x15 => Ins::ValOffsetSf(x, y as i64),
            0x16 => Ins::ValExpression(x, vec![0x96; (y % 5) as usize]),
            0x2d => Ins::NegateRaState,
            0x2e => Ins::ArgsSize(y),
            _ => Ins::Raw { bytes: vec![b, x as u8, y as u8], expect: CfiError::UnknownInstruction(b) },
        }
    }
}

// ---------------------------------------------------------------- section specs

#[derive(Clone, Copy, Debug, PartialEq, Eq)]
pub enum Kind {
    DebugFrame,
    EhFrame,
}

#[derive(Clone, Debug)]
pub struct CieSpec {
    pub fmt64: bool,
    pub version: u8,
    /// raw augmentation string (without the NUL)
    pub aug: Vec<u8>,
    /// `.debug_frame` version 4 only
    pub v4_addr_size: u8,
    pub v4_seg_size: u8,
    pub code_align: u64,
    pub data_align: i64,
    /// u8 for version 1, ULEB128 otherwise
    pub ra: u64,
    pub lsda_enc: u8,
    pub pers_enc: u8,
    /// personality target address (encoded under `pers_enc` when representable, else raw)
    pub pers_target: u64,
    pub fde_enc: u8,
    /// extra bytes appended to the augmentation data (covered by its length)
    pub aug_pad: usize,
    pub insns: Vec<Ins>,
    pub pad_nops: usize,
}

impl Default for CieSpec {
    fn default() -> Self {
        CieSpec {
            fmt64: false,
            version: 1,
            aug: vec![],
            v4_addr_size: 8,
            v4_seg_size: 0,
            code_align: 1,
            data_align: 1,
            ra: 16,
            lsda_enc: 0,
            pers_enc: 0,
            pers_target: 0,
            fde_enc: 0,
            aug_pad: 0,
            insns: vec![],
            pad_nops: 0,
        }
    }
}

#[derive(Clone, Debug, Default)]
pub struct FdeSpec {
    /// index (into `SectionSpec::items`) of the CIE item
    pub cie: usize,
    pub fmt64: bool,
    pub initial: u64,
    pub range: u64,
    pub lsda_target: u64,
    pub aug_pad: usize,
    pub insns: Vec<Ins>,
    pub pad_nops: usize,
}

#[derive(Clone, Debug)]
pub enum Item {
    Cie(CieSpec),
    Fde(FdeSpec),
    /// an entry of length 0: terminator in `.eh_frame`, skipped in `.debug_frame`
    ZeroLength { fmt64: bool },
    /// bytes that nothing may read (after a terminator)
    Junk(Vec<u8>),
}

#[derive(Clone, Debug)]
pub struct SectionSpec {
    pub kind: Kind,
    pub le: bool,
    /// address size given to the section (`set_address_size`); v4 `.debug_frame` CIEs override
    pub addr_size: u8,
    pub aarch64: bool,
    /// bases for pointers in this section (`func` is ignored: it is per FDE)
    pub bases: Bases,
    /// when true, `pers_target`, `FdeSpec::initial` (under an 'R' encoding) and `lsda_target`
    /// are emitted as raw format values instead of being solved for the base
    pub raw_pointers: bool,
    pub items: Vec<Item>,
}

// ---------------------------------------------------------------- entry models

#[derive(Clone, Debug)]
pub struct CieModel {
    pub item: usize,
    pub offset: u64,
    /// value of the length field
    pub length: u64,
    pub fmt64: bool,
    pub version: u8,
    pub aug: Vec<u8>,
    pub addr_size: u8,
    pub code_align: u64,
    pub data_align: i64,
    pub ra: u64,
    pub lsda_enc: Option<u8>,
    pub personality: Option<(u8, Result<Ptr, PeErr>)>,
    pub fde_enc: Option<u8>,
    pub signal: bool,
    /// error that parsing this CIE must report (malformed augmentation, bad encoding byte...)
    pub parse_error: Option<CieParseError>,
    pub insn_off: u64,
    pub insn_len: u64,
    /// model instructions incl. padding nops
    pub insns: Vec<Insn>,
}

#[derive(Clone, Debug, PartialEq, Eq)]
pub enum CieParseError {
    UnknownVersion(u8),
    UnknownAugmentation,
    Pe(PeErr),
    UnsupportedRegister(u64),
    UnsupportedSegmentSize(u8),
    UnsupportedAddressSize(u8),
}

#[derive(Clone, Debug)]
pub struct FdeModel {
    pub item: usize,
    pub offset: u64,
    pub length: u64,
    pub fmt64: bool,
    /// index into `Built::entries` of the CIE
    pub cie_entry: usize,
    pub cie_offset: u64,
    /// decoded initial address (or the error parsing this FDE must report)
    pub initial: Result<u64, PeErr>,
    /// the range value as read (raw, sign-extended for signed formats)
    pub range: u64,
    pub end: u64,
    pub lsda: Option<Result<Ptr, PeErr>>,
    pub insn_off: u64,
    pub insn_len: u64,
    pub insns: Vec<Insn>,
}

#[derive(Clone, Debug)]
pub enum Entry {
    Cie(CieModel),
    Fde(FdeModel),
}

impl Entry {
    pub fn offset(&self) -> u64 {
        match self {
            Entry::Cie(c) => c.offset,
            Entry::Fde(f) => f.offset,
        }
    }
}

#[derive(Clone, Debug)]
pub struct Built {
    pub bytes: Vec<u8>,
    pub fields: Vec<Field>,
    /// every CIE / FDE in file order (zero-length entries and junk are not entries)
    pub entries: Vec<Entry>,
    /// number of leading `entries` that iteration reaches (entries behind an `.eh_frame`
    /// terminator are not reached)
    pub reachable: usize,
}

impl Built {
    pub fn cie_of(&self, f: &FdeModel) -> &CieModel {
        match &self.entries[f.cie_entry] {
            Entry::Cie(c) => c,
            _ => unreachable!("fde.cie_entry designates a CIE"),
        }
    }
    /// The row-interpreter program of the FDE at `entries[idx]` (None if it is not an FDE or
    /// its addresses do not decode).
    pub fn program(&self, idx: usize) -> Option<m::Program<'_>> {
        let Entry::Fde(f) = self.entries.get(idx)? else { return None };
        let c = self.cie_of(f);
        let initial = f.initial.clone().ok()?;
        Some(m::Program { cie: &c.insns, fde: &f.insns, code_align: c.code_align, data_align: c.data_align, addr_size: c.addr_size, initial, end: f.end })
    }
    pub fn fdes(&self) -> impl Iterator<Item = (usize, &FdeModel)> {
        self.entries.iter().enumerate().filter_map(|(i, e)| match e {
            Entry::Fde(f) => Some((i, f)),
            _ => None,
        })
    }
}

fn begin_entry(a: &mut Asm, fmt64: bool) -> crate::asm::LengthMark {
    a.begin_length(fmt64)
}

/// Assemble the section.
pub fn build(spec: &SectionSpec) -> Built {
    let mut a = Asm::new(spec.le);
    let mut entries: Vec<Entry> = vec![];
    // item index -> entry index
    let mut item_entry: Vec<Option<usize>> = vec![None; spec.items.len()];
    // (offset of pointer field, width, fde entry index, cie item) to patch once offsets are known
    let mut patches: Vec<(usize, usize, usize, usize)> = vec![];
    let mut reachable: Option<usize> = None;
    let eh = spec.kind == Kind::EhFrame;

    // first pass needs CIE models of *earlier* items for FDE encoding; forward references
    // (debug_frame only) are resolved by pre-scanning the CIE specs for what an FDE needs.
    let cie_info = |idx: usize| -> Option<(&CieSpec, u8)> {
        match spec.items.get(idx) {
            Some(Item::Cie(c)) => {
                let asz = if !eh && c.version == 4 { c.v4_addr_size } else { spec.addr_size };
                Some((c, asz))
            }
            _ => None,
        }
    };

    for (ii, item) in spec.items.iter().enumerate() {
        match item {
            Item::ZeroLength { fmt64 } => {
                if *fmt64 {
                    a.u32(0xffff_ffff);
                    a.u64(0);
                } else {
                    a.f_uint(FieldKind::Length, "zero_length", 4, 0);
                }
                if eh && reachable.is_none() {
                    reachable = Some(entries.len());
                }
            }
            Item::Junk(b) => {
                a.bytes(b);
            }
            Item::Cie(c) => {
                let offset = a.len() as u64;
                let mark = begin_entry(&mut a, c.fmt64);
                let id_w = if !eh && c.fmt64 { 8 } else { 4 };
                a.f_uint(FieldKind::Offset, "cie_id", id_w, if eh { 0 } else { u64::MAX });
                a.f_uint(FieldKind::Version, "cie_version", 1, c.version as u64);
                let mut s = c.aug.clone();
                s.push(0);
                a.f_bytes(FieldKind::Str, "augmentation", &s);
                let mut parse_error = None;
                if !matches!(c.version, 1 | 3 | 4) {
                    parse_error = Some(CieParseError::UnknownVersion(c.version));
                }
                let addr_size = if !eh && c.version == 4 {
                    a.f_uint(FieldKind::Size, "address_size", 1, c.v4_addr_size as u64);
                    a.f_uint(FieldKind::Size, "segment_size", 1, c.v4_seg_size as u64);
                    if !matches!(c.v4_addr_size, 1 | 2 | 4 | 8) {
                        parse_error = Some(CieParseError::UnsupportedAddressSize(c.v4_addr_size));
                    } else if c.v4_seg_size != 0 {
                        parse_error = Some(CieParseError::UnsupportedSegmentSize(c.v4_seg_size));
                    }
                    c.v4_addr_size
                } else {
                    spec.addr_size
                };
                a.f_uleb(FieldKind::Uleb, "code_align", c.code_align);
                a.f_sleb(FieldKind::Sleb, "data_align", c.data_align);
                if c.version == 1 {
                    a.f_uint(FieldKind::Other, "return_register", 1, c.ra);
                } else {
                    a.f_uleb(FieldKind::Uleb, "return_register", c.ra);
                    if c.ra > 0xffff && parse_error.is_none() {
                        parse_error = Some(CieParseError::UnsupportedRegister(c.ra));
                    }
                }
                let ra = if c.version == 1 { c.ra & 0xff } else { c.ra };
                // augmentation data, in the order of the string
                let mut lsda_enc = None;
                let mut personality = None;
                let mut fde_enc = None;
                let mut signal = false;
                if !c.aug.is_empty() {
                    let has_z = c.aug[0] == b'z';
                    // The data is assembled separately because its length precedes it and
                    // pcrel fields depend on their position: guess the size of the length
                    // field, assemble, and retry with the real size if the guess was wrong.
                    let mut len_len = 1usize;
                    for _ in 0..3 {
                        let data_pos = a.len() + if has_z { len_len } else { 0 };
                        let mut d = Asm::new(spec.le);
                        lsda_enc = None;
                        personality = None;
                        fde_enc = None;
                        signal = false;
                        let mut perr = None;
                        let mut seen_first = false;
                        for ch in c.aug.iter() {
                            if perr.is_some() {
                                break;
                            }
                            match ch {
                                b'z' => {
                                    if seen_first {
                                        perr = Some(CieParseError::UnknownAugmentation);
                                    }
                                }
                                b'L' => {
                                    if !has_z {
                                        perr = Some(CieParseError::UnknownAugmentation);
                                    } else {
                                        d.f_uint(FieldKind::Form, "lsda_encoding", 1, c.lsda_enc as u64);
                                        if !m::pe_is_valid(c.lsda_enc) {
                                            perr = Some(CieParseError::Pe(PeErr::Unknown(c.lsda_enc)));
                                        } else {
                                            lsda_enc = Some(c.lsda_enc);
                                        }
                                    }
                                }
                                b'P' => {
                                    if !has_z {
                                        perr = Some(CieParseError::UnknownAugmentation);
                                    } else {
                                        d.f_uint(FieldKind::Form, "personality_encoding", 1, c.pers_enc as u64);
                                        let pos = (data_pos + d.len()) as u64;
                                        let b = Bases { func: None, ..spec.bases };
                                        let bytes = encode_ptr(spec.raw_pointers, c.pers_enc, c.pers_target, spec.le, pos, &b, addr_size);
                                        d.f_bytes(FieldKind::Address, "personality", &bytes);
                                        match m::pe_decode(c.pers_enc, &bytes, spec.le, pos, &b, addr_size) {
                                            Ok((p, _)) => personality = Some((c.pers_enc, Ok(p))),
                                            Err(e) => {
                                                personality = Some((c.pers_enc, Err(e.clone())));
                                                perr = Some(CieParseError::Pe(e));
                                            }
                                        }
                                    }
                                }
                                b'R' => {
                                    if !has_z {
                                        perr = Some(CieParseError::UnknownAugmentation);
                                    } else {
                                        d.f_uint(FieldKind::Form, "fde_encoding", 1, c.fde_enc as u64);
                                        if !m::pe_is_valid(c.fde_enc) {
                                            perr = Some(CieParseError::Pe(PeErr::Unknown(c.fde_enc)));
                                        } else {
                                            fde_enc = Some(c.fde_enc);
                                        }
                                    }
                                }
                                b'S' => signal = true,
                                _ => perr = Some(CieParseError::UnknownAugmentation),
                            }
                            seen_first = true;
                        }
                        if has_z {
                            for _ in 0..c.aug_pad {
                                d.u8(0xee);
                            }
                        }
                        let need = uleb_bytes(d.len() as u64).len();
                        if has_z && need != len_len {
                            len_len = need;
                            continue;
                        }
                        if has_z {
                            a.f_uleb(FieldKind::Length, "aug_length", d.len() as u64);
                        }
                        let shift = a.len();
                        a.bytes(&d.buf);
                        for f in d.fields {
                            a.fields.push(Field { off: f.off + shift, ..f });
                        }
                        if parse_error.is_none() {
                            parse_error = perr;
                        }
                        break;
                    }
                }
                let insn_off = a.len() as u64;
                let env = EmitEnv { in_fde: false, fde_enc: None, addr_size, le: spec.le, bases: spec.bases, aarch64: spec.aarch64 };
                let mut insns = vec![];
                for i in &c.insns {
                    insns.push(i.emit(&mut a, &env));
                }
                for _ in 0..c.pad_nops {
                    a.u8(0);
                    insns.push(Insn::Nop);
                }
                let insn_len = a.len() as u64 - insn_off;
                a.end_length(mark);
                let length = a.len() as u64 - mark.body as u64;
                item_entry[ii] = Some(entries.len());
                entries.push(Entry::Cie(CieModel {
                    item: ii,
                    offset,
                    length,
                    fmt64: c.fmt64,
                    version: c.version,
                    aug: c.aug.clone(),
                    addr_size,
                    code_align: c.code_align,
                    data_align: c.data_align,
                    ra,
                    lsda_enc,
                    personality,
                    fde_enc,
                    signal,
                    parse_error,
                    insn_off,
                    insn_len,
                    insns,
                }));
            }
            Item::Fde(f) => {
                let (c, addr_size) = cie_info(f.cie).expect("FdeSpec.cie must designate a Cie item");
                let has_z = c.aug.first() == Some(&b'z');
                let r_enc = if has_z && c.aug.contains(&b'R') { Some(c.fde_enc) } else { None };
                let l_enc = if has_z && c.aug.contains(&b'L') { Some(c.lsda_enc) } else { None };
                let offset = a.len() as u64;
                let mark = begin_entry(&mut a, f.fmt64);
                let ptr_w = if !eh && f.fmt64 { 8 } else { 4 };
                let ptr_off = a.len();
                a.f_uint(FieldKind::Offset, "cie_pointer", ptr_w, 0);
                patches.push((ptr_off, ptr_w, entries.len(), f.cie));
                let mask = addr_mask(addr_size);
                let bases0 = Bases { func: None, ..spec.bases };
                let (initial, range) = match r_enc {
                    None => {
                        a.f_uint(FieldKind::Address, "initial_location", (addr_size as usize).min(8), f.initial);
                        a.f_uint(FieldKind::Size, "address_range", (addr_size as usize).min(8), f.range);
                        (Ok(f.initial & mask), f.range & mask)
                    }
                    Some(e) => {
                        let pos = a.len() as u64;
                        let bytes = encode_ptr(spec.raw_pointers, e, f.initial, spec.le, pos, &bases0, addr_size);
                        a.f_bytes(FieldKind::Address, "initial_location", &bytes);
                        let init = m::pe_decode(e, &bytes, spec.le, pos, &bases0, addr_size).map(|(p, _)| p.value());
                        let rb = pe_encode_raw(e, f.range, spec.le, addr_size);
                        a.f_bytes(FieldKind::Size, "address_range", &rb);
                        let range = if init.is_ok() { m::pe_read_value(e, &rb, spec.le, addr_size).map(|(v, _)| v).unwrap_or(0) } else { 0 };
                        (init, range)
                    }
                };
                let end = initial.clone().map(|i| i.wrapping_add(range) & mask).unwrap_or(0);
                let mut lsda = None;
                if !c.aug.is_empty() {
                    // augmentation data: length, LSDA pointer if 'L', padding
                    let b = Bases { func: initial.clone().ok(), ..spec.bases };
                    // the LSDA position depends on the length of the length field: the
                    // pointer is assembled for pos = after a one-byte length (data < 128 bytes)
                    let pos = a.len() as u64 + 1;
                    let lbytes = match l_enc {
                        Some(e) => encode_ptr(spec.raw_pointers, e, f.lsda_target, spec.le, pos, &b, addr_size),
                        None => vec![],
                    };
                    let total = lbytes.len() + f.aug_pad;
                    debug_assert!(total < 128);
                    a.f_uleb(FieldKind::Length, "fde_aug_length", total as u64);
                    if let Some(e) = l_enc {
                        a.f_bytes(FieldKind::Address, "lsda", &lbytes);
                        if initial.is_ok() {
                            lsda = Some(m::pe_decode(e, &lbytes, spec.le, pos, &b, addr_size).map(|(p, _)| p));
                        }
                    }
                    for _ in 0..f.aug_pad {
                        a.u8(0xee);
                    }
                }
                let insn_off = a.len() as u64;
                let env = EmitEnv { in_fde: true, fde_enc: r_enc, addr_size, le: spec.le, bases: spec.bases, aarch64: spec.aarch64 };
                let mut insns = vec![];
                for i in &f.insns {
                    insns.push(i.emit(&mut a, &env));
                }
                for _ in 0..f.pad_nops {
                    a.u8(0);
                    insns.push(Insn::Nop);
                }
                let insn_len = a.len() as u64 - insn_off;
                a.end_length(mark);
                let length = a.len() as u64 - mark.body as u64;
                item_entry[ii] = Some(entries.len());
                entries.push(Entry::Fde(FdeModel {
                    item: ii,
                    offset,
                    length,
                    fmt64: f.fmt64,
                    cie_entry: usize::MAX,
                    cie_offset: 0,
                    initial,
                    range,
                    end,
                    lsda,
                    insn_off,
                    insn_len,
                    insns,
                }));
            }
        }
    }
    // resolve CIE pointers
    for (ptr_off, w, fde_entry, cie_item) in patches {
        let ce = item_entry[cie_item].expect("cie item assembled");
        let cie_offset = entries[ce].offset();
        let v = if eh { (ptr_off as u64).wrapping_sub(cie_offset) } else { cie_offset };
        a.patch_uint(ptr_off, w, v);
        if let Entry::Fde(f) = &mut entries[fde_entry] {
            f.cie_entry = ce;
            f.cie_offset = cie_offset;
        }
    }
    let reachable = reachable.unwrap_or(entries.len());
    Built { bytes: a.buf, fields: a.fields, entries, reachable }
}

// ---------------------------------------------------------------- .eh_frame_hdr

#[derive(Clone, Debug)]
pub struct HdrSpec {
    pub le: bool,
    pub addr_size: u8,
    pub version: u8,
    pub eh_frame_ptr_enc: u8,
    pub fde_count_enc: u8,
    pub table_enc: u8,
    /// address of the `.eh_frame` section
    pub eh_frame_addr: u64,
    /// (initial location, address of the FDE) pairs; sorted by the builder
    pub entries: Vec<(u64, u64)>,
    /// bases for pointers inside `.eh_frame_hdr` (section = data = address of the header)
    pub bases: Bases,
}

#[derive(Clone, Debug)]
pub struct HdrBuilt {
    pub bytes: Vec<u8>,
    pub fields: Vec<Field>,
    /// decoded eh_frame_ptr (or the error `parse` must report)
    pub eh_frame_ptr: Result<Ptr, PeErr>,
    /// error for the fde_count field (`Unsupported` when the encoding is not a pure format)
    pub count_error: Option<PeErr>,
    /// fde_count as decoded (0 when either encoding is omit)
    pub fde_count: u64,
    /// decoded table, in table order: (initial, fde address), None if an entry fails to decode
    pub table: Vec<Result<(Ptr, Ptr), PeErr>>,
    /// true when every target was representable, so the decoded table equals `spec.entries` sorted
    pub exact: bool,
}

pub fn build_hdr(spec: &HdrSpec) -> HdrBuilt {
    let mut a = Asm::new(spec.le);
    let b = Bases { func: None, ..spec.bases };
    a.f_uint(FieldKind::Version, "hdr_version", 1, spec.version as u64);
    a.f_uint(FieldKind::Form, "eh_frame_ptr_enc", 1, spec.eh_frame_ptr_enc as u64);
    a.f_uint(FieldKind::Form, "fde_count_enc", 1, spec.fde_count_enc as u64);
    a.f_uint(FieldKind::Form, "table_enc", 1, spec.table_enc as u64);
    let mut exact = true;
    let pos = a.len() as u64;
    let bytes = match pe_encode_target(spec.eh_frame_ptr_enc, spec.eh_frame_addr, spec.le, pos, &b, spec.addr_size) {
        Some(x) => x,
        None => {
            exact = false;
            pe_encode_raw(spec.eh_frame_ptr_enc, spec.eh_frame_addr, spec.le, spec.addr_size)
        }
    };
    a.f_bytes(FieldKind::Address, "eh_frame_ptr", &bytes);
    let eh_frame_ptr = m::pe_decode(spec.eh_frame_ptr_enc, &bytes, spec.le, pos, &b, spec.addr_size).map(|(p, _)| p);
    let mut entries = spec.entries.clone();
    entries.sort();
    let mut count_error = None;
    let mut fde_count = 0u64;
    if spec.fde_count_enc != m::PE_OMIT && spec.table_enc != m::PE_OMIT {
        if spec.fde_count_enc & 0xf0 != 0 {
            count_error = Some(PeErr::Unsupported(spec.fde_count_enc));
        }
        let cb = pe_encode_raw(spec.fde_count_enc, entries.len() as u64, spec.le, spec.addr_size);
        a.f_bytes(FieldKind::Count, "fde_count", &cb);
        fde_count = m::pe_read_value(spec.fde_count_enc, &cb, spec.le, spec.addr_size).map(|(v, _)| v).unwrap_or(0);
    }
    let mut table = vec![];
    if spec.table_enc != m::PE_OMIT {
        for (init, fde) in &entries {
            let mut one = |a: &mut Asm, target: u64, name: &'static str| -> Result<Ptr, PeErr> {
                let pos = a.len() as u64;
                let bytes = match pe_encode_target(spec.table_enc, target, spec.le, pos, &b, spec.addr_size) {
                    Some(x) => x,
                    None => {
                        exact = false;
                        pe_encode_raw(spec.table_enc, target, spec.le, spec.addr_size)
                    }
                };
                a.f_bytes(FieldKind::Address, name, &bytes);
                m::pe_decode(spec.table_enc, &bytes, spec.le, pos, &b, spec.addr_size).map(|(p, _)| p)
            };
            let i = one(&mut a, *init, "table_initial");
            let f = one(&mut a, *fde, "table_fde");
            table.push(match (i, f) {
                (Ok(i), Ok(f)) => Ok((i, f)),
                (Err(e), _) | (_, Err(e)) => Err(e),
            });
        }
    }
    HdrBuilt { bytes: a.buf, fields: a.fields, eh_frame_ptr, count_error, fde_count, table, exact }
}

// small helpers shared by the property modules

pub fn uleb_len(v: u64) -> usize {
    uleb_bytes(v).len()
}
pub fn sleb_len(v: i64) -> usize {
    sleb_bytes(v).len()
}

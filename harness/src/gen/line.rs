//! Hand assembler and generators for `.debug_line` (+ `.debug_line_str` / `.debug_str`),
//! independent of `gimli::write`.
//!
//! * `sample_hdr`   — header parameter space of DESIGN.md C04 (boundary sets + uniform),
//!                    v2-4 directory/file lists, v5 entry formats (1-6 content types in any
//!                    order, standard and non-standard forms, unknown content types).
//! * `assemble`     — header + program bytes -> section bytes with a field map.
//! * `emit_ins`     — every standard / extended / special opcode incl. unknown ones.
//! * `gen_program`  — random multi-sequence programs, kept well-formed by looking ahead with
//!                    the model machine (or deliberately not, for the secondary/pinned part).

use crate::asm::{uleb_bytes, uleb_padded, Asm, Enc, Field, FieldKind};
use crate::model::line::*;
use crate::rt::Rng;

// ---------------------------------------------------------------- string tables

#[derive(Clone, Debug, Default)]
pub struct StrTab {
    pub bytes: Vec<u8>,
}

impl StrTab {
    pub fn add(&mut self, s: &[u8]) -> u64 {
        let off = self.bytes.len() as u64;
        self.bytes.extend_from_slice(s);
        self.bytes.push(0);
        off
    }
    /// The NUL-terminated string at `off` (model-side resolution).
    pub fn get(&self, off: u64) -> Option<Vec<u8>> {
        let off = usize::try_from(off).ok()?;
        if off > self.bytes.len() {
            return None;
        }
        let rest = &self.bytes[off..];
        let n = rest.iter().position(|x| *x == 0)?;
        Some(rest[..n].to_vec())
    }
}

#[derive(Clone, Debug, Default)]
pub struct Tabs {
    pub line_str: StrTab,
    pub str_: StrTab,
}

// ---------------------------------------------------------------- header sampling

const STD_LENGTHS: [u8; 12] = [0, 1, 1, 1, 1, 0, 0, 0, 1, 0, 0, 1];

fn name(r: &mut Rng) -> Vec<u8> {
    let n = 1 + r.usize(10);
    (0..n)
        .map(|_| {
            let c = r.next() as u8;
            match c {
                0 => b'/',
                _ => {
                    if r.chance(1, 6) {
                        c
                    } else {
                        b'a' + c % 26
                    }
                }
            }
        })
        .collect()
}

/// All forms the line-table header grammar can carry (any of them must at least be skippable).
pub const ALL_FORMS: &[u16] = &[
    FORM_BLOCK1, FORM_BLOCK2, FORM_BLOCK4, FORM_BLOCK, FORM_DATA1, FORM_DATA2, FORM_DATA4, FORM_DATA8, FORM_DATA16, FORM_UDATA, FORM_SDATA, FORM_FLAG, FORM_SEC_OFFSET, FORM_STRING,
    FORM_STRP, FORM_STRP_SUP, FORM_GNU_STRP_ALT, FORM_LINE_STRP, FORM_STRX, FORM_GNU_STR_INDEX, FORM_STRX1, FORM_STRX2, FORM_STRX3, FORM_STRX4,
];

pub fn form_name(f: u16) -> &'static str {
    match f {
        FORM_BLOCK1 => "block1",
        FORM_BLOCK2 => "block2",
        FORM_BLOCK4 => "block4",
        FORM_BLOCK => "block",
        FORM_DATA1 => "data1",
        FORM_DATA2 => "data2",
        FORM_DATA4 => "data4",
        FORM_DATA8 => "data8",
        FORM_DATA16 => "data16",
        FORM_UDATA => "udata",
        FORM_SDATA => "sdata",
        FORM_FLAG => "flag",
        FORM_SEC_OFFSET => "sec_offset",
        FORM_STRING => "string",
        FORM_STRP => "strp",
        FORM_STRP_SUP => "strp_sup",
        FORM_GNU_STRP_ALT => "GNU_strp_alt",
        FORM_LINE_STRP => "line_strp",
        FORM_STRX => "strx",
        FORM_GNU_STR_INDEX => "GNU_str_index",
        FORM_STRX1 => "strx1",
        FORM_STRX2 => "strx2",
        FORM_STRX3 => "strx3",
        FORM_STRX4 => "strx4",
        _ => "?",
    }
}

/// A value for `form` (+ string table entries where the form references one).
pub fn gen_av(r: &mut Rng, form: u16, enc: Enc, tabs: &mut Tabs) -> AV {
    let word_mask = if enc.fmt64 { u64::MAX } else { 0xffff_ffff };
    match form {
        FORM_BLOCK1 | FORM_BLOCK2 | FORM_BLOCK4 | FORM_BLOCK => {
            let n = match r.below(4) {
                0 => 16,
                1 => 0,
                _ => r.usize(20),
            };
            AV::Block(r.bytes(n))
        }
        FORM_DATA16 => AV::Block(r.bytes(16)),
        FORM_DATA1 => AV::Data1(r.boundary() as u8),
        FORM_DATA2 => AV::Data2(r.boundary() as u16),
        FORM_DATA4 => AV::Data4(r.boundary() as u32),
        FORM_DATA8 => AV::Data8(r.boundary()),
        FORM_UDATA => AV::Udata(r.boundary()),
        FORM_SDATA => AV::Sdata(r.boundary() as i64),
        FORM_FLAG => AV::Flag(r.bool()),
        FORM_SEC_OFFSET => AV::SecOffset(r.boundary() & word_mask),
        FORM_STRING => AV::Str(if r.chance(1, 8) { vec![] } else { name(r) }),
        FORM_STRP => {
            let s = name(r);
            AV::Strp(tabs.str_.add(&s))
        }
        FORM_LINE_STRP => {
            let s = name(r);
            AV::LineStrp(tabs.line_str.add(&s))
        }
        FORM_STRP_SUP | FORM_GNU_STRP_ALT => AV::StrpSup(r.boundary() & word_mask),
        FORM_STRX | FORM_GNU_STR_INDEX => AV::Strx(r.boundary()),
        FORM_STRX1 => AV::Strx(r.boundary() & 0xff),
        FORM_STRX2 => AV::Strx(r.boundary() & 0xffff),
        FORM_STRX3 => AV::Strx(r.boundary() & 0xff_ffff),
        _ => AV::Strx(r.boundary() & 0xffff_ffff),
    }
}

/// Encode `v` under `form`.
pub fn emit_av(a: &mut Asm, form: u16, v: &AV, enc: Enc) {
    match (form, v) {
        (FORM_BLOCK1, AV::Block(b)) => {
            a.f_uint(FieldKind::Length, "block1.len", 1, b.len() as u64);
            a.bytes(b);
        }
        (FORM_BLOCK2, AV::Block(b)) => {
            a.f_uint(FieldKind::Length, "block2.len", 2, b.len() as u64);
            a.bytes(b);
        }
        (FORM_BLOCK4, AV::Block(b)) => {
            a.f_uint(FieldKind::Length, "block4.len", 4, b.len() as u64);
            a.bytes(b);
        }
        (FORM_BLOCK, AV::Block(b)) => {
            a.f_uleb(FieldKind::Length, "block.len", b.len() as u64);
            a.bytes(b);
        }
        (FORM_DATA16, AV::Block(b)) => {
            a.f_bytes(FieldKind::Data, "data16", b);
        }
        (_, AV::Data1(x)) => {
            a.f_uint(FieldKind::Other, "data1", 1, *x as u64);
        }
        (_, AV::Data2(x)) => {
            a.f_uint(FieldKind::Other, "data2", 2, *x as u64);
        }
        (_, AV::Data4(x)) => {
            a.f_uint(FieldKind::Other, "data4", 4, *x as u64);
        }
        (_, AV::Data8(x)) => {
            a.f_uint(FieldKind::Other, "data8", 8, *x);
        }
        (_, AV::Udata(x)) => {
            a.f_uleb(FieldKind::Uleb, "udata", *x);
        }
        (_, AV::Sdata(x)) => {
            a.f_sleb(FieldKind::Sleb, "sdata", *x);
        }
        (_, AV::Flag(x)) => {
            a.u8(*x as u8);
        }
        (_, AV::SecOffset(x)) | (_, AV::Strp(x)) | (_, AV::StrpSup(x)) | (_, AV::LineStrp(x)) => {
            a.f_uint(FieldKind::Offset, "offset_form", enc.word() as usize, *x);
        }
        (_, AV::Str(s)) => {
            a.f_bytes(FieldKind::Str, "string", s);
            a.u8(0);
        }
        (FORM_STRX1, AV::Strx(x)) => {
            a.f_uint(FieldKind::Index, "strx1", 1, *x);
        }
        (FORM_STRX2, AV::Strx(x)) => {
            a.f_uint(FieldKind::Index, "strx2", 2, *x);
        }
        (FORM_STRX3, AV::Strx(x)) => {
            a.f_uint(FieldKind::Index, "strx3", 3, *x);
        }
        (FORM_STRX4, AV::Strx(x)) => {
            a.f_uint(FieldKind::Index, "strx4", 4, *x);
        }
        (_, AV::Strx(x)) => {
            a.f_uleb(FieldKind::Index, "strx", *x);
        }
        _ => {}
    }
}

/// `lo + below(span)` random bytes.
pub fn rbytes(r: &mut Rng, lo: usize, span: usize) -> Vec<u8> {
    let n = lo + r.usize(span);
    r.bytes(n)
}

fn pick_u8(r: &mut Rng, set: &[u8], lo: u8) -> u8 {
    if r.chance(3, 4) {
        *r.pick(set)
    } else {
        r.range(lo as u64, 255) as u8
    }
}

#[derive(Clone, Copy, Debug, Default)]
pub struct HdrOpts {
    /// only standard (content type, form) pairs in v5 tables
    pub strict_tables: bool,
    /// small header: few table entries
    pub small: bool,
}

pub fn sample_hdr(r: &mut Rng, enc: Enc, tabs: &mut Tabs, o: HdrOpts) -> Hdr {
    let min_inst_len = if enc.addr == 1 && r.chance(2, 3) { *r.pick(&[1u8, 1, 2, 4]) } else { pick_u8(r, &[1, 1, 2, 4, 255], 1) };
    let max_ops = if enc.version < 4 { 1 } else { pick_u8(r, &[1, 1, 2, 3, 4, 255], 1) };
    let line_base = if r.chance(3, 4) { *r.pick(&[-128i8, -5, -3, -1, 0, 1, 127]) } else { r.next() as i8 };
    let line_range = pick_u8(r, &[1, 2, 12, 14, 127, 255], 1);
    let opcode_base = pick_u8(r, &[1, 2, 10, 13, 13, 14, 40, 255], 1);
    let mut std_lengths = vec![];
    for op in 1..opcode_base {
        if op <= 12 {
            std_lengths.push(STD_LENGTHS[op as usize - 1]);
        } else {
            std_lengths.push(match r.below(8) {
                0 | 1 => 0,
                2 | 3 => 1,
                4 => 2,
                5 => 3,
                6 => r.below(9) as u8,
                _ => {
                    if r.chance(1, 10) {
                        255
                    } else {
                        r.below(20) as u8
                    }
                }
            });
        }
    }
    let default_is_stmt_raw = match r.below(10) {
        0..=3 => 0,
        4..=8 => 1,
        _ => *r.pick(&[2u8, 0x80, 0xff]),
    };
    let mut h = Hdr {
        enc,
        min_inst_len,
        max_ops,
        default_is_stmt: default_is_stmt_raw != 0,
        default_is_stmt_raw,
        line_base,
        line_range,
        opcode_base,
        std_lengths,
        dirs_v4: vec![],
        files_v4: vec![],
        dir_fmt: vec![],
        dirs_v5: vec![],
        file_fmt: vec![],
        files_v5: vec![],
        pad: if r.chance(1, 5) { rbytes(r, 1, 5) } else { vec![] },
    };
    // occasionally table sizes around the one-/two-byte ULEB128 and u8/u16 boundaries of the
    // v5 count fields (a count read with the wrong width only shows from 128 entries on)
    const BIG_COUNTS: [usize; 7] = [127, 128, 129, 255, 256, 257, 300];
    let nd = if o.small { r.usize(2) } else if r.chance(1, 16) { *r.pick(&BIG_COUNTS) } else { r.usize(5) };
    let nf = if o.small { r.usize(3) } else if r.chance(1, 16) { *r.pick(&BIG_COUNTS) } else { r.usize(6) };
    if enc.version <= 4 {
        for _ in 0..nd {
            h.dirs_v4.push(name(r));
        }
        for _ in 0..nf {
            let d = if r.chance(4, 5) { r.below(nd as u64 + 1) } else { r.boundary() };
            h.files_v4.push((name(r), d, r.boundary(), r.boundary()));
        }
    } else {
        // directory entry format: exactly one path, plus 0-3 other content types
        let string_forms: &[u16] = &[FORM_STRING, FORM_LINE_STRP, FORM_STRP, FORM_STRING, FORM_LINE_STRP, FORM_STRP_SUP, FORM_STRX, FORM_STRX1, FORM_STRX2, FORM_STRX3, FORM_STRX4, FORM_GNU_STR_INDEX, FORM_GNU_STRP_ALT];
        let unknown_cts: &[u64] = &[6, 7, 0x2000, 0x2002, 0x3fff, 0xffff, 0x1_0000, 0x1_0001, u64::MAX];
        let mut fmt: Vec<Fmt> = vec![(LNCT_PATH, if !o.strict_tables && r.chance(1, 12) { *r.pick(ALL_FORMS) } else { *r.pick(string_forms) })];
        let extra = if r.chance(1, 2) { 0 } else { 1 + r.usize(3) };
        for _ in 0..extra {
            fmt.push((*r.pick(unknown_cts), *r.pick(ALL_FORMS)));
        }
        r.shuffle(&mut fmt);
        h.dir_fmt = fmt;
        for _ in 0..nd {
            let vals: Vec<AV> = h.dir_fmt.iter().map(|(_, f)| gen_av(r, *f, enc, tabs)).collect();
            h.dirs_v5.push(vals);
        }
        // file entry format: path + any subset of the other content types, any order
        let mut fmt: Vec<Fmt> = vec![(LNCT_PATH, if !o.strict_tables && r.chance(1, 12) { *r.pick(ALL_FORMS) } else { *r.pick(string_forms) })];
        let odd = !o.strict_tables && r.chance(1, 6);
        if r.chance(3, 4) {
            fmt.push((LNCT_DIRECTORY_INDEX, if odd { *r.pick(ALL_FORMS) } else { *r.pick(&[FORM_UDATA, FORM_DATA1, FORM_DATA2]) }));
        }
        if r.chance(1, 2) {
            fmt.push((LNCT_TIMESTAMP, if odd { *r.pick(ALL_FORMS) } else { *r.pick(&[FORM_UDATA, FORM_DATA4, FORM_DATA8]) }));
        }
        if r.chance(1, 2) {
            fmt.push((LNCT_SIZE, if odd { *r.pick(ALL_FORMS) } else { *r.pick(&[FORM_UDATA, FORM_DATA1, FORM_DATA2, FORM_DATA4, FORM_DATA8]) }));
        }
        if r.chance(1, 2) {
            fmt.push((LNCT_MD5, if odd { *r.pick(&[FORM_BLOCK1, FORM_BLOCK, FORM_DATA16, FORM_BLOCK2, FORM_BLOCK4, FORM_DATA8]) } else { FORM_DATA16 }));
        }
        if r.chance(1, 3) {
            fmt.push((LNCT_LLVM_SOURCE, *r.pick(&[FORM_STRING, FORM_LINE_STRP, FORM_STRP, FORM_STRX1])));
        }
        if r.chance(1, 3) {
            fmt.push((*r.pick(unknown_cts), *r.pick(ALL_FORMS)));
        }
        if !o.strict_tables && r.chance(1, 20) {
            // duplicate of a standard content type (standard silent; pinned)
            fmt.push((*r.pick(&[LNCT_TIMESTAMP, LNCT_SIZE, LNCT_DIRECTORY_INDEX]), FORM_UDATA));
        }
        r.shuffle(&mut fmt);
        h.file_fmt = fmt;
        for _ in 0..nf {
            let vals: Vec<AV> = h
                .file_fmt
                .iter()
                .map(|(ct, f)| {
                    if *ct == LNCT_DIRECTORY_INDEX && r.chance(3, 4) {
                        // mostly a valid index
                        let v = r.below(nd as u64 + 1);
                        match *f {
                            FORM_UDATA => AV::Udata(v),
                            FORM_DATA1 => AV::Data1(v as u8),
                            FORM_DATA2 => AV::Data2(v as u16),
                            _ => gen_av(r, *f, enc, tabs),
                        }
                    } else {
                        gen_av(r, *f, enc, tabs)
                    }
                })
                .collect();
            h.files_v5.push(vals);
        }
    }
    h
}

// ---------------------------------------------------------------- assembling

#[derive(Clone, Debug)]
pub struct Built {
    /// whole `.debug_line`: `pre` + this unit + `post`
    pub line: Vec<u8>,
    pub offset: usize,
    pub unit_length: u64,
    pub header_length: u64,
    /// absolute position of the program in `line`
    pub prog_off: usize,
    pub prog_len: usize,
    pub fields: Vec<Field>,
}

fn emit_fmt(a: &mut Asm, fmt: &[Fmt]) {
    a.f_uint(FieldKind::Count, "entry_format_count", 1, fmt.len() as u64);
    for (ct, form) in fmt {
        a.f_uleb(FieldKind::Other, "content_type", *ct);
        a.f_uleb(FieldKind::Form, "form", *form as u64);
    }
}

pub fn assemble(h: &Hdr, prog: &[u8], pre: &[u8], post: &[u8]) -> Built {
    let enc = h.enc;
    let mut a = Asm::new(enc.le);
    a.bytes(pre);
    let offset = a.len();
    let lm = a.begin_length(enc.fmt64);
    a.f_uint(FieldKind::Version, "version", 2, enc.version as u64);
    if enc.version >= 5 {
        a.f_uint(FieldKind::Size, "address_size", 1, enc.addr as u64);
        a.f_uint(FieldKind::Size, "segment_selector_size", 1, 0);
    }
    let hl_off = a.len();
    a.f_uint(FieldKind::Length, "header_length", enc.word() as usize, 0);
    let hl_base = a.len();
    a.f_uint(FieldKind::Size, "minimum_instruction_length", 1, h.min_inst_len as u64);
    if enc.version >= 4 {
        a.f_uint(FieldKind::Size, "maximum_operations_per_instruction", 1, h.max_ops as u64);
    }
    a.f_uint(FieldKind::Other, "default_is_stmt", 1, h.default_is_stmt_raw as u64);
    a.f_uint(FieldKind::Other, "line_base", 1, h.line_base as u8 as u64);
    a.f_uint(FieldKind::Size, "line_range", 1, h.line_range as u64);
    a.f_uint(FieldKind::Count, "opcode_base", 1, h.opcode_base as u64);
    a.f_bytes(FieldKind::Data, "standard_opcode_lengths", &h.std_lengths);
    if enc.version <= 4 {
        for d in &h.dirs_v4 {
            a.f_bytes(FieldKind::Str, "include_directory", d);
            a.u8(0);
        }
        a.u8(0);
        for (n, d, m, s) in &h.files_v4 {
            a.f_bytes(FieldKind::Str, "file_name", n);
            a.u8(0);
            a.f_uleb(FieldKind::Index, "file.dir", *d);
            a.f_uleb(FieldKind::Uleb, "file.mtime", *m);
            a.f_uleb(FieldKind::Uleb, "file.size", *s);
        }
        a.u8(0);
    } else {
        emit_fmt(&mut a, &h.dir_fmt);
        a.f_uleb(FieldKind::Count, "directories_count", h.dirs_v5.len() as u64);
        for vals in &h.dirs_v5 {
            for ((_, form), v) in h.dir_fmt.iter().zip(vals) {
                emit_av(&mut a, *form, v, enc);
            }
        }
        emit_fmt(&mut a, &h.file_fmt);
        a.f_uleb(FieldKind::Count, "file_names_count", h.files_v5.len() as u64);
        for vals in &h.files_v5 {
            for ((_, form), v) in h.file_fmt.iter().zip(vals) {
                emit_av(&mut a, *form, v, enc);
            }
        }
    }
    a.bytes(&h.pad);
    let header_length = (a.len() - hl_base) as u64;
    a.patch_uint(hl_off, enc.word() as usize, header_length);
    let prog_off = a.len();
    a.map = false;
    a.bytes(prog);
    let unit_length = (a.len() - lm.body) as u64;
    a.end_length(lm);
    a.bytes(post);
    Built { line: a.buf, offset, unit_length, header_length, prog_off, prog_len: prog.len(), fields: a.fields }
}

fn uleb_p(a: &mut Asm, v: u64, pad: usize) {
    if pad == 0 {
        a.uleb(v);
    } else {
        let n = (uleb_bytes(v).len() + pad).min(10);
        a.bytes(&uleb_padded(v, n));
    }
}

/// Encode one instruction.  `pad` > 0 pads ULEB128 operands with that many redundant bytes
/// (still at most 10 bytes in total).
pub fn emit_ins(a: &mut Asm, h: &Hdr, i: &Ins, pad: usize) {
    let ext = |a: &mut Asm, sub: u8, body: &[u8], extra: &[u8], pad: usize| {
        a.u8(0);
        uleb_p(a, 1 + body.len() as u64 + extra.len() as u64, pad);
        a.u8(sub);
        a.bytes(body);
        a.bytes(extra);
    };
    match i {
        Ins::Special(op) => {
            a.u8(*op);
        }
        Ins::Copy => {
            a.u8(LNS_COPY);
        }
        Ins::AdvancePc(v) => {
            a.u8(LNS_ADVANCE_PC);
            uleb_p(a, *v, pad);
        }
        Ins::AdvanceLine(v) => {
            a.u8(LNS_ADVANCE_LINE);
            a.sleb(*v);
        }
        Ins::SetFile(v) => {
            a.u8(LNS_SET_FILE);
            uleb_p(a, *v, pad);
        }
        Ins::SetColumn(v) => {
            a.u8(LNS_SET_COLUMN);
            uleb_p(a, *v, pad);
        }
        Ins::NegateStmt => {
            a.u8(LNS_NEGATE_STMT);
        }
        Ins::SetBasicBlock => {
            a.u8(LNS_SET_BASIC_BLOCK);
        }
        Ins::ConstAddPc => {
            a.u8(LNS_CONST_ADD_PC);
        }
        Ins::FixedAdvancePc(v) => {
            a.u8(LNS_FIXED_ADVANCE_PC);
            a.u16(*v);
        }
        Ins::SetPrologueEnd => {
            a.u8(LNS_SET_PROLOGUE_END);
        }
        Ins::SetEpilogueBegin => {
            a.u8(LNS_SET_EPILOGUE_BEGIN);
        }
        Ins::SetIsa(v) => {
            a.u8(LNS_SET_ISA);
            uleb_p(a, *v, pad);
        }
        Ins::UnknownStd(op, args) => {
            a.u8(*op);
            for v in args {
                uleb_p(a, *v, pad);
            }
        }
        Ins::EndSequence { extra } => ext(a, LNE_END_SEQUENCE, &[], extra, pad),
        Ins::SetAddress { addr, extra } => {
            let mut b = Asm::new(h.enc.le);
            b.uint(h.enc.addr as usize, *addr);
            ext(a, LNE_SET_ADDRESS, &b.buf, extra, pad)
        }
        Ins::DefineFile { name, dir, mtime, size, extra } => {
            let mut b = Asm::new(h.enc.le);
            b.cstr(name);
            uleb_p(&mut b, *dir, pad);
            uleb_p(&mut b, *mtime, pad);
            uleb_p(&mut b, *size, pad);
            ext(a, LNE_DEFINE_FILE, &b.buf, extra, pad)
        }
        Ins::SetDiscriminator { v, extra } => {
            let mut b = Asm::new(h.enc.le);
            uleb_p(&mut b, *v, pad);
            ext(a, LNE_SET_DISCRIMINATOR, &b.buf, extra, pad)
        }
        Ins::UnknownExt(sub, payload) => ext(a, *sub, payload, &[], pad),
    }
}

pub fn emit_prog(h: &Hdr, ins: &[Ins], pads: &[usize]) -> Vec<u8> {
    let mut a = Asm::new(h.enc.le);
    a.map = false;
    for (k, i) in ins.iter().enumerate() {
        emit_ins(&mut a, h, i, pads.get(k).copied().unwrap_or(0));
    }
    a.buf
}

// ---------------------------------------------------------------- instruction generation

fn extra(r: &mut Rng) -> Vec<u8> {
    if r.chance(1, 8) {
        rbytes(r, 1, 4)
    } else {
        vec![]
    }
}

fn any_u64(r: &mut Rng) -> u64 {
    match r.below(4) {
        0 | 1 => r.below(300),
        _ => r.boundary(),
    }
}

/// Operands for the standard opcode `op` (1..=12), shaped by the machine state so that the
/// instruction is usually (not always) well-formed.
pub fn gen_std(r: &mut Rng, op: u8, m: &Machine) -> Ins {
    match op {
        LNS_COPY => Ins::Copy,
        LNS_ADVANCE_PC => {
            let room_addr = (m.mask - (m.reg.address & m.mask)) / m.min_inst_len.max(1);
            let room = if m.max_ops == 1 { room_addr } else { room_addr.saturating_mul(m.max_ops) };
            Ins::AdvancePc(match r.below(10) {
                0..=4 => r.below(20),
                5 => r.below(2000),
                6 => room,
                7 => room / 2,
                8 => room.saturating_add(r.below(3)),
                _ => r.boundary(),
            })
        }
        LNS_ADVANCE_LINE => Ins::AdvanceLine(match r.below(10) {
            0..=4 => r.irange(-10, 40),
            5 => r.irange(-2000, 2000),
            6 => -(m.reg.line.min(i64::MAX as u64) as i64),
            7 => -(m.reg.line.min(i64::MAX as u64 - 1) as i64) - 1,
            8 => *r.pick(&[i64::MAX, i64::MIN, i64::MIN + 1, 0x7fff_ffff, -0x8000_0000]),
            _ => r.boundary() as i64,
        }),
        LNS_SET_FILE => Ins::SetFile(any_u64(r)),
        LNS_SET_COLUMN => Ins::SetColumn(any_u64(r)),
        LNS_NEGATE_STMT => Ins::NegateStmt,
        LNS_SET_BASIC_BLOCK => Ins::SetBasicBlock,
        LNS_CONST_ADD_PC => Ins::ConstAddPc,
        LNS_FIXED_ADVANCE_PC => Ins::FixedAdvancePc(match r.below(4) {
            0 => 0,
            1 => r.below(64) as u16,
            2 => 0xffff,
            _ => r.next() as u16,
        }),
        LNS_SET_PROLOGUE_END => Ins::SetPrologueEnd,
        LNS_SET_EPILOGUE_BEGIN => Ins::SetEpilogueBegin,
        _ => Ins::SetIsa(any_u64(r)),
    }
}

pub fn gen_set_address(r: &mut Rng, m: &Machine) -> Ins {
    let cur = m.reg.address;
    let max_ok = m.mask.wrapping_sub(2); // largest non-tombstone address
    let a = match r.below(10) {
        0..=3 => cur.saturating_add(r.below(0x40)).min(max_ok),
        4 => cur,
        5 => max_ok,
        6 => (r.boundary() & m.mask).max(cur).min(max_ok),
        7 => cur.saturating_add(r.below(0x1_0000)).min(max_ok),
        8 => r.boundary() & m.mask, // may be lower / tombstone
        _ => *r.pick(&[0, 1, m.mask, m.mask - 1]),
    };
    Ins::SetAddress { addr: a, extra: extra(r) }
}

/// The extended instruction with sub-opcode `sub` and a suitable payload.
pub fn gen_ext(r: &mut Rng, sub: u8, h: &Hdr, m: &Machine) -> Ins {
    match sub {
        LNE_END_SEQUENCE => Ins::EndSequence { extra: extra(r) },
        LNE_SET_ADDRESS => gen_set_address(r, m),
        LNE_DEFINE_FILE if !h.v5() => Ins::DefineFile { name: name(r), dir: any_u64(r), mtime: r.boundary(), size: r.boundary(), extra: extra(r) },
        LNE_SET_DISCRIMINATOR => Ins::SetDiscriminator { v: any_u64(r), extra: extra(r) },
        _ => {
            let n = match r.below(10) {
                0..=2 => 0,
                3..=7 => 1 + r.usize(9),
                8 => 126 + r.usize(4),
                _ => 300 + r.usize(50),
            };
            Ins::UnknownExt(sub, r.bytes(n))
        }
    }
}

pub fn gen_unknown_std(r: &mut Rng, op: u8, h: &Hdr) -> Ins {
    let n = h.std_lengths.get(op as usize - 1).copied().unwrap_or(0);
    Ins::UnknownStd(op, (0..n).map(|_| any_u64(r)).collect())
}

/// The instruction whose first byte is `op` (for the exhaustive opcode sweep); for op == 0
/// the extended sub-opcode is `sub`.
pub fn gen_for_opcode(r: &mut Rng, op: u8, sub: u8, h: &Hdr, m: &Machine) -> Ins {
    match h.class(op) {
        OpClass::Extended => gen_ext(r, sub, h, m),
        OpClass::Special => Ins::Special(op),
        OpClass::Standard => gen_std(r, op, m),
        OpClass::UnknownStandard(_) => gen_unknown_std(r, op, h),
    }
}

/// One random instruction among those the header makes available.
pub fn gen_any(r: &mut Rng, h: &Hdr, m: &Machine) -> Ins {
    let ob = h.opcode_base as u64;
    loop {
        match r.below(100) {
            0..=24 => {
                if ob <= 255 {
                    let op = r.range(ob, 255) as u8;
                    if op >= h.opcode_base {
                        return Ins::Special(op);
                    }
                }
            }
            25..=34 => {
                if h.has_std(LNS_COPY) {
                    return Ins::Copy;
                }
            }
            35..=69 => {
                let op = 2 + r.below(11) as u8;
                if h.has_std(op) {
                    return gen_std(r, op, m);
                }
            }
            70..=74 => {
                if h.opcode_base > 13 {
                    let op = r.range(13, ob - 1) as u8;
                    return gen_unknown_std(r, op, h);
                }
            }
            75..=80 => return Ins::EndSequence { extra: extra(r) },
            81..=87 => return gen_set_address(r, m),
            88..=92 => return gen_ext(r, LNE_SET_DISCRIMINATOR, h, m),
            93..=95 => return gen_ext(r, LNE_DEFINE_FILE, h, m),
            _ => {
                let sub = *r.pick(&[0u8, 5, 6, 0x7f, 0x80, 0x81, 0xfe, 0xff, 3]);
                let sub = if sub == 3 && !h.v5() { 0x42 } else { sub };
                return gen_ext(r, sub, h, m);
            }
        }
    }
}

/// Random program of about `n` instructions.  With `wellformed` every instruction is checked
/// by looking ahead with the model machine and replaced if it would leave the strict domain;
/// otherwise ill-formed steps are let through now and then.
pub fn gen_program(r: &mut Rng, h: &Hdr, n: usize, wellformed: bool, terminate: bool) -> Vec<Ins> {
    let mut m = Machine::new(h);
    let mut out = vec![];
    for _ in 0..n {
        let mut chosen = None;
        for _try in 0..6 {
            let i = gen_any(r, h, &m);
            let mut t = m.clone();
            t.step(&i);
            let bad = t.ill && !m.ill;
            if !bad || (!wellformed && r.chance(1, 3)) {
                chosen = Some((i, t));
                break;
            }
        }
        let (i, t) = match chosen {
            Some(x) => x,
            None => {
                let i = Ins::SetDiscriminator { v: r.below(100), extra: vec![] };
                let mut t = m.clone();
                t.step(&i);
                (i, t)
            }
        };
        out.push(i);
        m = t;
        if m.err {
            // the reader stops with an error here; keep a few more instructions behind it
            break;
        }
    }
    if terminate && !m.err {
        out.push(Ins::EndSequence { extra: vec![] });
    }
    out
}

//! Seeded generator of `CaseSpec`s (see `gen/wr.rs`).

use super::*;
use crate::asm::Enc;
use crate::rt::Rng;
use gimli::constants as dw;

#[derive(Clone, Copy, Debug)]
pub struct GenOpts {
    /// generate symbolic addresses (`AddrSpec::sym`)
    pub symbolic: bool,
    /// inject one unencodable item with this probability (percent)
    pub err_pct: u64,
    /// upper bound for the number of entries of a big unit
    pub max_entries: usize,
}

/// Extra switches that do not change the cases `gen_case` produces when left at their
/// defaults (C18 and the `rand` stream of C11 rely on that).
#[derive(Clone, Copy, Debug, Default)]
pub struct GenExt {
    /// Only requests that `write::Dwarf::convert` + `ConvertUnit::convert` map back to the very
    /// same request: no raw expression bytes, no DW_OP_piece sizes that overflow in bits, no
    /// DW_OP_deref_size of the address size, constants only under attribute names whose
    /// value class the reader does not normalise, expressions only under names the reader
    /// recognises as expressions in every version, no sibling flag on the root, no line
    /// sequence without rows.
    pub convertible: bool,
    /// lower bound for the number of units (0: the default distribution)
    pub min_units: usize,
    /// percentage of entries that get an additional cross-unit DebugInfoRef attribute, and
    /// extra weight for call_ref / variable_value / implicit_pointer in expressions
    pub xref_pct: u64,
}

const TAGS: &[u16] = &[
    0x24, 0x24, 0x2e, 0x34, 0x13, 0x0d, 0x0f, 0x16, 0x0b, 0x05, 0x1d, 0x39, 0x04, 0x28, 0x01, 0x21, 0x17, 0x3a, 0x4080, 0x4109, 0xffff, 0x7f, 0x80,
];

fn names_for_ext(kind: &str, ext: &GenExt) -> &'static [u16] {
    if ext.convertible {
        match kind {
            // DW_AT_const_value, DW_AT_discr_value, DW_AT_alignment and vendor names: the
            // reader keeps the form's own value kind
            "Data1" | "Data2" | "Data4" | "Data8" | "Data16" | "Sdata" | "Udata" | "ImplicitConst" => return &[0x1c, 0x16, 0x88, 0x2e11, 0x2e12, 0x2e13],
            // not DW_AT_vtable_elem_location (copied raw by the converter) and no vendor name
            // (a block in versions 2-3 is not recognised as an expression)
            "Exprloc" => return &[0x02, 0x40, 0x50, 0x38, 0x2a, 0x19, 0x48],
            _ => {}
        }
    }
    names_for(kind)
}

fn names_for(kind: &str) -> &'static [u16] {
    match kind {
        "Address" => &[0x11, 0x52, 0x12, 0x7d, 0x81],
        "Block" => &[0x1c, 0x3d, 0x2e10],
        "Data1" | "Data2" | "Data4" | "Data8" | "Data16" | "Sdata" | "Udata" | "ImplicitConst" => &[0x1c, 0x0b, 0x3b, 0x39, 0x2f, 0x22, 0x16, 0x88, 0x0d, 0x0c, 0x2e11, 0x2e12, 0x2e13],
        "Exprloc" => &[0x02, 0x40, 0x50, 0x38, 0x2a, 0x19, 0x48, 0x4d, 0x2e14],
        "Flag" | "FlagPresent" => &[0x3f, 0x3c, 0x34, 0x27, 0x4b, 0x87, 0x2e15],
        "UnitRef" | "DebugInfoRef" | "DebugInfoRefSym" | "DebugInfoRefSup" => &[0x49, 0x31, 0x47, 0x18, 0x1d, 0x41, 0x64, 0x2e16],
        "DebugTypesRef" => &[0x69, 0x49, 0x2e17],
        "LineProgramRef" => &[0x10],
        "LocationListRef" => &[0x02, 0x40, 0x19, 0x2a, 0x46, 0x48, 0x4a, 0x4d, 0x38],
        "RangeListRef" => &[0x55, 0x2c],
        "DebugMacinfoRef" => &[0x43],
        "DebugMacroRef" => &[0x79],
        "StringRef" | "DebugStrRefSup" | "LineStringRef" | "String" => &[0x03, 0x25, 0x1b, 0x6e, 0x5a, 0x2e18],
        "Encoding" => &[0x3e],
        "DecimalSign" => &[0x5e],
        "Endianity" => &[0x65],
        "Accessibility" => &[0x32],
        "Visibility" => &[0x17],
        "Virtuality" => &[0x4c],
        "Language" => &[0x13],
        "AddressClass" => &[0x33],
        "IdentifierCase" => &[0x42],
        "CallingConvention" => &[0x36],
        "Inline" => &[0x20],
        "Ordering" => &[0x09],
        "FileIndex" => &[0x3a, 0x58],
        _ => &[0x2e19],
    }
}

pub fn symvals_for(min_addr: u8) -> Vec<u64> {
    (0..8u64)
        .map(|k| match min_addr {
            1 => 1 + 7 * k,
            2 => 0x100 * (k + 1),
            _ => 0x1_0000 * (k + 1),
        })
        .collect()
}

struct G<'a> {
    r: &'a mut Rng,
    opts: GenOpts,
    ext: GenExt,
    min_addr: u8,
    nunits: usize,
    single: bool,
    nstr: usize,
    nlstr: usize,
}

fn bytes_payload(r: &mut Rng, max: usize) -> Vec<u8> {
    let n = match r.below(10) {
        0 => 0,
        1 => 1,
        2 => 127,
        3 => 128,
        4 => max.min(300),
        _ => r.usize(12),
    };
    let n = n.min(max);
    match r.below(3) {
        0 => vec![r.next() as u8; n],
        _ => r.bytes(n),
    }
}

fn str_payload(r: &mut Rng) -> Vec<u8> {
    let n = match r.below(10) {
        0 => 0,
        1 => 1,
        2 => 200,
        _ => 1 + r.usize(10),
    };
    (0..n)
        .map(|_| match r.below(6) {
            0 => 0x80 + (r.next() % 0x80) as u8,
            1 => 0xff,
            _ => b'a' + (r.next() % 26) as u8,
        })
        .collect()
}

impl G<'_> {
    /// address that is safe for lists and line sequences (far from 0 and from the tombstones)
    fn safe_addr(&mut self, enc: Enc) -> AddrSpec {
        if self.opts.symbolic && self.r.chance(2, 3) {
            let add_max = match self.min_addr {
                1 => 0x10,
                2 => 0x7ff,
                _ => 0xffff,
            };
            return AddrSpec { sym: Some(self.r.usize(8)), val: self.r.below(add_max + 1) };
        }
        let max = match enc.addr.min(self.min_addr.max(enc.addr)) {
            1 => 0x50,
            2 => 0x5000,
            4 => 0x5000_0000,
            _ => 0x5000_0000_0000_0000,
        };
        let v = match self.r.below(4) {
            0 => max,
            1 => 1,
            _ => 1 + self.r.below(max),
        };
        AddrSpec::abs(v)
    }

    fn small_delta(&mut self, enc: Enc) -> u64 {
        let max = match enc.addr {
            1 => 0x10,
            2 => 0x300,
            _ => 0x3000,
        };
        1 + self.r.below(max)
    }

    /// attribute address: boundary values of the address size
    fn attr_addr(&mut self, enc: Enc) -> AddrSpec {
        if self.r.chance(1, 2) {
            return self.safe_addr(enc);
        }
        let m = enc.addr_mask();
        let v = match self.r.below(6) {
            0 => 0,
            1 => m,
            2 => m - 1,
            3 => m >> 1,
            4 => (m >> 1) + 1,
            _ => self.r.boundary() & m,
        };
        AddrSpec::abs(v)
    }

    fn reg(&mut self) -> u16 {
        *self.r.pick(&[0u16, 1, 31, 32, 33, 127, 128, 0x3fff, 0x4000, 0xffff])
    }

    /// `uleb_ok`: entries a ULEB reference may point to (empty: none allowed)
    fn op(&mut self, enc: Enc, u: usize, uleb_ok: &[usize], any: &[usize], all: &[Vec<usize>], nested: bool, idx_max: usize) -> XOp {
        loop {
            let mut k = self.r.below(30);
            if self.ext.xref_pct > 0 && !self.single && self.r.below(100) < self.ext.xref_pct {
                k = 22 + self.r.below(3);
            }
            return match k {
                0 => XOp::Simple(*self.r.pick(&[0x96u8, 0x1a, 0x9c, 0x22, 0x9f, 0x13, 0x16, 0x17, 0x97, 0x9b, 0x19, 0x1f, 0x20, 0x2e])),
                1 => XOp::Addr(self.attr_addr(enc)),
                2 => XOp::Constu(*self.r.pick(&[0u64, 31, 32, 127, 128, u64::MAX, 1 << 35])),
                3 => XOp::Consts(*self.r.pick(&[0i64, -1, 63, 64, -64, -65, i64::MIN, i64::MAX])),
                4 => XOp::Fbreg(self.r.boundary() as i64),
                5 => XOp::Breg(self.reg(), self.r.boundary() as i64),
                6 => XOp::Reg(self.reg()),
                7 => XOp::Pick(*self.r.pick(&[0u8, 1, 2, 255])),
                8 => XOp::Deref(self.r.bool()),
                9 => {
                    let (space, mut n) = (self.r.bool(), self.r.next() as u8);
                    if self.ext.convertible && n == enc.addr {
                        n = n.wrapping_add(1);
                    }
                    XOp::DerefSize(space, n)
                }
                10 => XOp::PlusUconst(self.r.boundary()),
                11 => {
                    let v = self.r.boundary();
                    XOp::Piece(if self.ext.convertible { v & 0x0fff_ffff_ffff_ffff } else { v })
                }
                12 => XOp::BitPiece(self.r.boundary(), self.r.boundary()),
                13 => XOp::ImplicitValue(bytes_payload(self.r, 200)),
                14 => XOp::Wasm(self.r.below(3) as u8, self.r.boundary() as u32),
                15 | 16 | 17 | 18 | 19 => {
                    if uleb_ok.is_empty() {
                        continue;
                    }
                    let t = *self.r.pick(uleb_ok);
                    match k {
                        15 => XOp::ConstType(t, bytes_payload(self.r, 255)),
                        16 => XOp::RegvalType(self.reg(), t),
                        17 => XOp::DerefType(self.r.bool(), self.r.next() as u8, t),
                        18 => XOp::Convert(if self.r.chance(1, 4) { None } else { Some(t) }),
                        _ => XOp::Reinterpret(if self.r.chance(1, 4) { None } else { Some(t) }),
                    }
                }
                20 => XOp::Call(*self.r.pick(any)),
                21 => XOp::ParameterRef(*self.r.pick(any)),
                22 | 23 | 24 => {
                    if self.single {
                        continue;
                    }
                    let uu = self.r.usize(all.len());
                    let t = *self.r.pick(&all[uu]);
                    match k {
                        22 => XOp::CallRef(uu, t),
                        23 => XOp::VariableValue(uu, t),
                        _ => XOp::ImplicitPointer(uu, t, self.r.boundary() as i64),
                    }
                }
                25 => {
                    if nested {
                        continue;
                    }
                    let n = self.r.usize(4);
                    let inner = (0..n).map(|_| self.op(enc, u, uleb_ok, any, all, true, 0)).collect();
                    XOp::EntryValue(inner)
                }
                26 | 27 => {
                    if nested {
                        continue;
                    }
                    let t = self.r.usize(idx_max + 1);
                    if k == 26 {
                        XOp::Skip(t)
                    } else {
                        XOp::Bra(t)
                    }
                }
                _ => XOp::Simple(0x96),
            };
        }
    }

    fn xspec(&mut self, enc: Enc, u: usize, uleb_ok: &[usize], any: &[usize], all: &[Vec<usize>]) -> XSpec {
        match self.r.below(8) {
            0 if self.ext.convertible => XSpec::Ops(vec![XOp::Simple(0x9c)]),
            0 => XSpec::Raw(bytes_payload(self.r, 200)),
            1 => XSpec::Ops(vec![]),
            _ => {
                let n = 1 + self.r.usize(5);
                let mut ops: Vec<XOp> = (0..n).map(|_| self.op(enc, u, uleb_ok, any, all, false, n)).collect();
                // a branch to itself is rejected by Expression::set_target (debug assertion)
                for (i, op) in ops.iter_mut().enumerate() {
                    if let XOp::Skip(t) | XOp::Bra(t) = op {
                        if *t == i {
                            *t = i + 1;
                        }
                    }
                }
                XSpec::Ops(ops)
            }
        }
    }
}

fn live_entries(us: &UnitSpec) -> Vec<usize> {
    (0..us.entries.len()).filter(|&k| !us.is_deleted(k)).collect()
}

pub fn gen_case(r: &mut Rng, opts: GenOpts) -> CaseSpec {
    gen_case_ext(r, opts, GenExt::default())
}

pub fn gen_case_ext(r: &mut Rng, opts: GenOpts, ext: GenExt) -> CaseSpec {
    let mut nunits = match r.below(10) {
        0..=4 => 1,
        5..=7 => 2,
        8 => 3,
        _ => 4,
    };
    if nunits < ext.min_units {
        nunits = ext.min_units + r.usize(5 - ext.min_units.min(4));
    }
    let single = nunits == 1 && r.chance(2, 5);
    let le = r.bool();
    let mut encs = vec![];
    for _ in 0..nunits {
        let mut e = Enc::random(r);
        e.le = le;
        if r.chance(2, 3) {
            e.addr = if r.bool() { 4 } else { 8 };
        }
        encs.push(e);
    }
    let min_addr = encs.iter().map(|e| e.addr).min().unwrap_or(8);
    let nstr = r.usize(6);
    let nlstr = r.usize(4);
    let mut strings: Vec<Vec<u8>> = vec![];
    for i in 0..nstr {
        if i > 0 && r.chance(1, 3) {
            let j = r.usize(i);
            strings.push(strings[j].clone());
        } else {
            strings.push(str_payload(r));
        }
    }
    let mut line_strings: Vec<Vec<u8>> = vec![];
    for i in 0..nlstr {
        if i > 0 && r.chance(1, 3) {
            let j = r.usize(i);
            line_strings.push(line_strings[j].clone());
        } else {
            line_strings.push(str_payload(r));
        }
    }
    let mut g = G { r, opts, ext, min_addr, nunits, single, nstr, nlstr };

    // ---- pass 1: trees
    let mut units: Vec<UnitSpec> = vec![];
    for u in 0..nunits {
        let enc = encs[u];
        let n = match g.r.below(20) {
            0 => 1,
            1 => 2,
            2 => 20 + g.r.usize(opts.max_entries.max(21) - 20),
            _ => 2 + g.r.usize(10),
        };
        let mut entries = vec![EntrySpec { parent: 0, tag: 0x11, sibling: g.r.chance(1, 3), reserve_at: None, deleted: false, attrs: vec![] }];
        let shape = g.r.below(4);
        for k in 1..n {
            let parent = match shape {
                0 => 0,
                1 => k - 1,
                2 => {
                    if g.r.chance(1, 2) {
                        0
                    } else {
                        g.r.usize(k)
                    }
                }
                _ => g.r.usize(k),
            };
            let tag = *g.r.pick(TAGS);
            let reserve_at = if g.r.chance(1, 5) { Some(1 + g.r.usize(k)) } else { None };
            entries.push(EntrySpec { parent, tag, sibling: g.r.chance(1, 2), reserve_at, deleted: false, attrs: vec![] });
        }
        if ext.convertible {
            // the converter does not carry the root's DW_AT_sibling over
            entries[0].sibling = false;
        }
        let phantoms = (0..g.r.usize(3)).map(|_| 1 + g.r.usize(n + 1)).collect();
        units.push(UnitSpec { enc, entries, phantoms, rlists: vec![], llists: vec![], line: None });
    }
    // harmless deletion of a leaf-ish sub-tree (references to it are only created by injection)
    let mut deleted_any = false;
    if g.r.chance(1, 12) {
        let u = g.r.usize(nunits);
        let n = units[u].entries.len();
        if n > 2 {
            let k = 1 + g.r.usize(n - 1);
            units[u].entries[k].deleted = true;
            deleted_any = true;
        }
    }
    let all_live: Vec<Vec<usize>> = units.iter().map(live_entries).collect();

    // ---- pass 2: line programs and lists
    for u in 0..nunits {
        let enc = units[u].enc;
        if g.r.chance(3, 5) {
            let ndirs = g.r.usize(3);
            let dirs: Vec<Vec<u8>> = (0..ndirs).map(|i| format!("dir{u}_{i}").into_bytes()).collect();
            let nfiles = 1 + g.r.usize(4);
            let files: Vec<(Vec<u8>, usize)> = (0..nfiles).map(|i| (format!("file{u}_{i}.c").into_bytes(), g.r.usize(ndirs + 1))).collect();
            let nseq = 1 + g.r.usize(2);
            let mut seqs = vec![];
            for _ in 0..nseq {
                let start = g.safe_addr(enc);
                let mut nrows = g.r.usize(5);
                if ext.convertible && nrows == 0 {
                    // the converter drops the start address of a sequence without rows
                    nrows = 1;
                }
                let mut off = 0u64;
                let mut rows = vec![];
                for _ in 0..nrows {
                    let lmax = if g.r.chance(1, 5) { 100_000 } else { 60 };
                    let line = 1 + g.r.below(lmax);
                    let f = g.r.usize(nfiles);
                    rows.push((off, line, f));
                    off += if enc.addr == 1 { g.r.below(4) } else { g.r.below(300) };
                }
                let end_off = off + 1 + g.r.below(3);
                seqs.push(SeqSpec { start, rows, end_off });
            }
            units[u].line = Some(LineSpec { fmt64: if g.r.chance(1, 4) { !enc.fmt64 } else { enc.fmt64 }, str_kind: g.r.below(3) as u8, comp_dir: format!("/comp{u}").into_bytes(), dirs, files, seqs });
        }
        let live = all_live[u].clone();
        let nr = g.r.usize(4);
        for i in 0..nr {
            if i > 0 && g.r.chance(1, 4) {
                let j = g.r.usize(i);
                let l = units[u].rlists[j].clone();
                units[u].rlists.push(l);
                continue;
            }
            let npre = g.r.usize(3);
            let pre = (0..npre).map(|_| (g.safe_addr(enc), g.small_delta(enc))).collect();
            let base = g.safe_addr(enc);
            let mut pairs = vec![];
            let mut o = g.r.below(4);
            for _ in 0..(1 + g.r.usize(3)) {
                let d = g.small_delta(enc);
                pairs.push((o, o + d));
                o += d + g.r.below(3);
            }
            units[u].rlists.push(RListSpec { pre, base, pairs });
        }
        let nl = g.r.usize(4);
        for i in 0..nl {
            if i > 0 && g.r.chance(1, 4) {
                let j = g.r.usize(i);
                let l = units[u].llists[j].clone();
                units[u].llists.push(l);
                continue;
            }
            let npre = g.r.usize(2);
            let mut pre = vec![];
            for _ in 0..npre {
                let a = g.safe_addr(enc);
                let d = g.small_delta(enc);
                // in a location list every live entry may be referenced through a ULEB
                let x = g.xspec(enc, u, &live, &live, &all_live);
                pre.push((a, d, x));
            }
            let base = g.safe_addr(enc);
            let mut pairs = vec![];
            let mut o = g.r.below(4);
            for _ in 0..(1 + g.r.usize(3)) {
                let d = g.small_delta(enc);
                let x = g.xspec(enc, u, &live, &live, &all_live);
                pairs.push((o, o + d, x));
                o += d + g.r.below(3);
            }
            units[u].llists.push(LListSpec { pre, base, pairs });
        }
    }

    // ---- pass 3: attributes
    for u in 0..nunits {
        let enc = units[u].enc;
        let order = units[u].model_order();
        let live = all_live[u].clone();
        let nfiles = units[u].line.as_ref().map_or(0, |l| l.files.len());
        let (nrl, nll) = (units[u].rlists.len(), units[u].llists.len());
        let has_line = units[u].line.is_some();
        for k in 0..units[u].entries.len() {
            // entries written before (or equal to) this one: valid ULEB targets
            let mypos = order.iter().position(|(e, _)| *e == k);
            let uleb_ok: Vec<usize> = match mypos {
                Some(p) => order[..=p].iter().map(|(e, _)| *e).collect(),
                None => vec![],
            };
            let nattr = match g.r.below(12) {
                0 => 0,
                1 => 8 + g.r.usize(10),
                _ => g.r.usize(5),
            };
            let mut attrs: Vec<AttrSpec> = vec![];
            let mut tries = 0;
            while attrs.len() < nattr && tries < 80 {
                tries += 1;
                let kind = *g.r.pick(ALL_KINDS);
                let names = names_for_ext(kind, &ext);
                let name = *g.r.pick(names);
                if attrs.iter().any(|a| a.name == name) || name == 0x01 {
                    continue;
                }
                // DW_AT_low_pc on the root decides the list encodings; keep it for Address only
                if name == 0x11 && kind != "Address" {
                    continue;
                }
                let val = match kind {
                    "Address" => ValSpec::Address(if k == 0 && name == 0x11 { if g.r.chance(1, 3) { AddrSpec::abs(0) } else { g.safe_addr(enc) } } else { g.attr_addr(enc) }),
                    "Block" => ValSpec::Block(bytes_payload(g.r, 300)),
                    "Data1" => ValSpec::Data1(g.r.boundary() as u8),
                    "Data2" => ValSpec::Data2(g.r.boundary() as u16),
                    "Data4" => ValSpec::Data4(g.r.boundary() as u32),
                    "Data8" => ValSpec::Data8(g.r.boundary()),
                    "Data16" => ValSpec::Data16(((g.r.boundary() as u128) << 64) | g.r.boundary() as u128),
                    "Sdata" => ValSpec::Sdata(g.r.boundary() as i64),
                    "Udata" => ValSpec::Udata(g.r.boundary()),
                    "ImplicitConst" => ValSpec::ImplicitConst(g.r.boundary() as i64),
                    "Exprloc" => ValSpec::Exprloc(g.xspec(enc, u, &uleb_ok, &live, &all_live)),
                    "Flag" => ValSpec::Flag(g.r.bool()),
                    "FlagPresent" => ValSpec::FlagPresent,
                    "UnitRef" => ValSpec::UnitRef(match g.r.below(4) {
                        0 => k.min(*live.last().unwrap_or(&0)).max(0),
                        _ => *g.r.pick(&live),
                    }),
                    "DebugInfoRef" => {
                        if single {
                            continue;
                        }
                        let uu = if g.r.chance(1, 3) { u } else { g.r.usize(nunits) };
                        ValSpec::DebugInfoRef(uu, *g.r.pick(&all_live[uu]))
                    }
                    "DebugInfoRefSym" => continue,
                    "DebugInfoRefSup" => ValSpec::DebugInfoRefSup(g.r.boundary() & 0xffff_ffff),
                    "LineProgramRef" => {
                        if !has_line || k == 0 {
                            continue;
                        }
                        ValSpec::LineProgramRef
                    }
                    "LocationListRef" => {
                        if nll == 0 {
                            continue;
                        }
                        ValSpec::LocationListRef(g.r.usize(nll))
                    }
                    "RangeListRef" => {
                        if nrl == 0 {
                            continue;
                        }
                        ValSpec::RangeListRef(g.r.usize(nrl))
                    }
                    "DebugMacinfoRef" => ValSpec::DebugMacinfoRef(g.r.boundary() & 0xffff_ffff),
                    "DebugMacroRef" => ValSpec::DebugMacroRef(g.r.boundary() & 0xffff_ffff),
                    "DebugTypesRef" => ValSpec::DebugTypesRef(g.r.boundary()),
                    "StringRef" => {
                        if nstr == 0 {
                            continue;
                        }
                        ValSpec::StringRef(g.r.usize(nstr))
                    }
                    "DebugStrRefSup" => ValSpec::DebugStrRefSup(g.r.boundary() & 0xffff_ffff),
                    "LineStringRef" => {
                        if nlstr == 0 {
                            continue;
                        }
                        ValSpec::LineStringRef(g.r.usize(nlstr))
                    }
                    "String" => ValSpec::String(str_payload(g.r)),
                    "Encoding" => ValSpec::Encoding(g.r.boundary() as u8),
                    "DecimalSign" => ValSpec::DecimalSign(g.r.boundary() as u8),
                    "Endianity" => ValSpec::Endianity(g.r.boundary() as u8),
                    "Accessibility" => ValSpec::Accessibility(g.r.boundary() as u8),
                    "Visibility" => ValSpec::Visibility(g.r.boundary() as u8),
                    "Virtuality" => ValSpec::Virtuality(g.r.boundary() as u8),
                    "Language" => ValSpec::Language(g.r.boundary() as u16),
                    "AddressClass" => ValSpec::AddressClass(g.r.boundary()),
                    "IdentifierCase" => ValSpec::IdentifierCase(g.r.boundary() as u8),
                    "CallingConvention" => ValSpec::CallingConvention(g.r.boundary() as u8),
                    "Inline" => ValSpec::Inline(g.r.boundary() as u8),
                    "Ordering" => ValSpec::Ordering(g.r.boundary() as u8),
                    "FileIndex" => {
                        if ext.convertible && nfiles == 0 && enc.version >= 5 {
                            // index 0 names a file in version 5; the converter wants it to exist
                            continue;
                        }
                        if nfiles == 0 || g.r.chance(1, 6) {
                            ValSpec::FileIndex(None)
                        } else {
                            ValSpec::FileIndex(Some(g.r.usize(nfiles)))
                        }
                    }
                    _ => continue,
                };
                // a self reference for UnitRef needs a live entry
                if let ValSpec::UnitRef(t) = &val {
                    if !live.contains(t) {
                        continue;
                    }
                }
                attrs.push(AttrSpec { name, val });
            }
            if ext.xref_pct > 0 && nunits > 1 && mypos.is_some() && g.r.below(100) < ext.xref_pct {
                // one more reference into another unit (either direction)
                let uu = (u + 1 + g.r.usize(nunits - 1)) % nunits;
                if let Some(name) = names_for("DebugInfoRef").iter().copied().find(|n| !attrs.iter().any(|a| a.name == *n)) {
                    let p = g.r.usize(attrs.len() + 1);
                    attrs.insert(p, AttrSpec { name, val: ValSpec::DebugInfoRef(uu, *g.r.pick(&all_live[uu])) });
                }
            }
            let idpos = g.r.usize(attrs.len() + 1);
            attrs.insert(idpos, AttrSpec { name: ID_AT, val: ValSpec::Udata(ident(u, k)) });
            units[u].entries[k].attrs = attrs;
        }
    }

    let mut spec = CaseSpec { le, single, units, strings, line_strings, symvals: symvals_for(min_addr) };

    // ---- pass 4: inject exactly one unencodable item
    if g.r.below(100) < opts.err_pct {
        inject(&mut spec, g.r, deleted_any);
    }
    spec
}

fn free_name(e: &EntrySpec, names: &[u16]) -> Option<u16> {
    names.iter().copied().find(|n| !e.attrs.iter().any(|a| a.name == *n))
}

fn inject(spec: &mut CaseSpec, r: &mut Rng, _deleted_any: bool) {
    let u = r.usize(spec.units.len());
    let enc = spec.units[u].enc;
    let order = spec.units[u].model_order();
    let (k, _) = order[r.usize(order.len())];
    let push = |spec: &mut CaseSpec, k: usize, kind: &str, val: ValSpec, r: &mut Rng| {
        let e = &mut spec.units[u].entries[k];
        if let Some(name) = free_name(e, names_for(kind)) {
            let p = r.usize(e.attrs.len() + 1);
            e.attrs.insert(p, AttrSpec { name, val });
        }
    };
    match r.below(8) {
        0 => {
            if enc.addr < 8 {
                let v = enc.addr_mask() + 1 + r.below(3);
                // not DW_AT_low_pc of the root
                let e = &mut spec.units[u].entries[k];
                if let Some(name) = free_name(e, &[0x52, 0x12, 0x7d]) {
                    e.attrs.push(AttrSpec { name, val: ValSpec::Address(AddrSpec::abs(v)) });
                }
            } else if !enc.fmt64 {
                push(spec, k, "DebugInfoRefSup", ValSpec::DebugInfoRefSup(0x1_0000_0000 + r.below(5)), r);
            }
        }
        1 => {
            if !enc.fmt64 {
                let v = 0x1_0000_0000 + r.below(5);
                match r.below(3) {
                    0 => push(spec, k, "DebugStrRefSup", ValSpec::DebugStrRefSup(v), r),
                    1 => push(spec, k, "DebugMacinfoRef", ValSpec::DebugMacinfoRef(v), r),
                    _ => push(spec, k, "DebugMacroRef", ValSpec::DebugMacroRef(v), r),
                }
            } else {
                push(spec, k, "Exprloc", ValSpec::Exprloc(XSpec::Ops(vec![XOp::ConstType(0, vec![7; 256])])), r);
            }
        }
        2 => {
            // forward ULEB reference: from an entry to one written later
            if order.len() >= 2 {
                let i = r.usize(order.len() - 1);
                let j = i + 1 + r.usize(order.len() - 1 - i);
                let (from, to) = (order[i].0, order[j].0);
                let op = match r.below(5) {
                    0 => XOp::ConstType(to, vec![1, 2]),
                    1 => XOp::RegvalType(3, to),
                    2 => XOp::DerefType(false, 4, to),
                    3 => XOp::Convert(Some(to)),
                    _ => XOp::EntryValue(vec![XOp::Reinterpret(Some(to))]),
                };
                push(spec, from, "Exprloc", ValSpec::Exprloc(XSpec::Ops(vec![XOp::Simple(0x96), op])), r);
            }
        }
        3 => {
            // reference to a deleted entry
            let n = spec.units[u].entries.len();
            if n >= 2 {
                let t = 1 + r.usize(n - 1);
                spec.units[u].entries[t].deleted = true;
                let from = 0;
                match r.below(3) {
                    0 => push(spec, from, "UnitRef", ValSpec::UnitRef(t), r),
                    1 if !spec.single => push(spec, from, "DebugInfoRef", ValSpec::DebugInfoRef(u, t), r),
                    _ => push(spec, from, "Exprloc", ValSpec::Exprloc(XSpec::Ops(vec![XOp::Call(t)])), r),
                }
            }
        }
        4 => {
            spec.units[u].line = None;
            // FileIndex(Some) needs the program: drop those too
            for e in spec.units[u].entries.iter_mut() {
                for a in e.attrs.iter_mut() {
                    if let ValSpec::FileIndex(Some(_)) = a.val {
                        a.val = ValSpec::FileIndex(None);
                    }
                }
            }
            let e = &mut spec.units[u].entries[k];
            if !e.attrs.iter().any(|a| a.name == 0x10) && k != 0 {
                e.attrs.push(AttrSpec { name: 0x10, val: ValSpec::LineProgramRef });
            }
        }
        5 => push(spec, k, "DebugInfoRefSym", ValSpec::DebugInfoRefSym(r.usize(8)), r),
        6 => {
            let us = &mut spec.units[u];
            us.enc.version = if r.bool() { 1 } else { 6 };
            us.line = None;
            us.rlists.clear();
            us.llists.clear();
            for e in us.entries.iter_mut() {
                e.attrs.retain(|a| !matches!(a.val, ValSpec::LineProgramRef | ValSpec::RangeListRef(_) | ValSpec::LocationListRef(_)));
                for a in e.attrs.iter_mut() {
                    if let ValSpec::FileIndex(Some(_)) = a.val {
                        a.val = ValSpec::FileIndex(None);
                    }
                }
            }
        }
        _ => {
            // version 2 address-sized reference in a unit with a small address size
            if !spec.single {
                let us = &mut spec.units[u];
                us.enc.version = 2;
                us.enc.addr = if r.bool() { 1 } else { 2 };
                // a line program must have the unit's address size: drop it, and anything
                // whose validity depends on the address size
                us.line = None;
                us.rlists.clear();
                us.llists.clear();
                for e in us.entries.iter_mut() {
                    e.attrs.retain(|a| !matches!(a.val, ValSpec::LineProgramRef | ValSpec::RangeListRef(_) | ValSpec::LocationListRef(_) | ValSpec::Address(_) | ValSpec::Exprloc(_)));
                    for a in e.attrs.iter_mut() {
                        if let ValSpec::FileIndex(Some(_)) = a.val {
                            a.val = ValSpec::FileIndex(None);
                        }
                    }
                }
                let tu = r.usize(spec.units.len());
                let live = live_entries(&spec.units[tu]);
                let t = live[r.usize(live.len())];
                push(spec, k, "DebugInfoRef", ValSpec::DebugInfoRef(tu, t), r);
            }
        }
    }
}

//! Generator of `.debug_abbrev` / `.debug_info` / `.debug_types` bytes with a field map and
//! a model of what was encoded.  Written on top of `asm` only (independent of `gimli::write`).
//!
//! # API
//!
//! ```text
//! InfoCfg { le, tables: Vec<AbbrevTable>, units: Vec<UnitCfg>, abbrev_lead }   --build()-->
//! Built   { debug_abbrev, debug_info, debug_types,            // section bytes
//!           abbrev_fields, info_fields, types_fields,         // field maps (asm::Field)
//!           tables: Vec<TableModel>, units: Vec<UnitModel> }  // the model
//! ```
//!
//! * An `AbbrevTable` is a list of `AbbrevDecl {code, tag, children, attrs}` emitted in the
//!   given order (any code assignment, duplicates allowed - the generator does not judge),
//!   optionally without the terminating 0.  Several units may share a table.
//! * A `UnitCfg` names its encoding (`Enc`: byte order, 32/64-bit format, version 2-5,
//!   address size), its `UnitKind` (all six DWARF 5 unit types; before version 5 `Type` puts
//!   the unit into `.debug_types`), header extras (signature, type offset, dwo id), the
//!   abbreviation table it uses and its DIE stream as a flat list of `Item`s exactly as DWARF
//!   encodes it: `Item::Die {abbrev, vals}` (index into the table's `decls`, one `AttrVal` per
//!   declared attribute) and `Item::Null`.  Tree shape is implied by children flags and
//!   nulls; `items_from_depths` builds a stream from a pre-order depth sequence.
//! * An `AttrVal` is a `Val` (number, signed number, 128-bit number, bytes, nothing, or a
//!   reference to another item of the unit that is resolved after layout) plus the chain of
//!   forms named by successive `DW_FORM_indirect` prefixes and optional LEB128 padding.
//! * The model: `UnitModel` (section, offset, unit_length, header_size, header fields,
//!   `items`), `ItemModel` (unit-relative offset, length, depth by the Appendix A.3 rule,
//!   null / code / tag / children, `attrs`), `AttrModel` (name, declared form, final form,
//!   unit-relative offset, encoded length, `forms::Expect`).
//!
//! The generator never looks at gimli.  Layout rules come from `model::forms::layout`; the
//! encoded length of every attribute is measured on the assembler's buffer.
//!
//! Helpers for workloads: `boundary_vals` (boundary payload set of a form), `random_val`,
//! `forest_depths` (every ordered forest with n nodes), `simple_unit`.

use crate::asm::{sleb_bytes, uleb_bytes, uleb_padded, Asm, Enc, Field, FieldKind};
use crate::model::forms::{self, Class, Expect, Layout, MVal, Pay, Reject};
use crate::rt::Rng;

// ------------------------------------------------------------------ configuration

#[derive(Clone, Debug, PartialEq, Eq)]
pub struct AttrDecl {
    pub name: u16,
    pub form: u16,
    /// emitted (SLEB128) iff `form == DW_FORM_implicit_const`
    pub implicit_const: i64,
}

impl AttrDecl {
    pub fn new(name: u16, form: u16) -> AttrDecl {
        AttrDecl { name, form, implicit_const: 0 }
    }
}

#[derive(Clone, Debug, PartialEq, Eq)]
pub struct AbbrevDecl {
    pub code: u64,
    pub tag: u16,
    pub children: bool,
    pub attrs: Vec<AttrDecl>,
}

#[derive(Clone, Debug)]
pub struct AbbrevTable {
    pub decls: Vec<AbbrevDecl>,
    /// emit the terminating 0 code (a table that ends with the section may omit it)
    pub terminated: bool,
}

#[derive(Clone, Debug, PartialEq, Eq)]
pub enum Val {
    /// unsigned number (fixed-width forms truncate to their width)
    U(u64),
    /// 128-bit number (data16)
    U128(u128),
    /// signed number (sdata)
    S(i64),
    /// block / exprloc contents or string bytes (without the NUL)
    Bytes(Vec<u8>),
    /// nothing to encode (flag_present, implicit_const)
    Nothing,
    /// unit-relative offset of item `item` of this unit plus `delta`; `item == items.len()`
    /// means the end of the unit.  Only for forms whose size does not depend on the value
    /// (fixed-width forms, or LEB128 forms with `leb_len` set).
    Ref { item: usize, delta: i64 },
}

#[derive(Clone, Debug, PartialEq, Eq)]
pub struct AttrVal {
    /// forms named by successive DW_FORM_indirect prefixes; the last one is the final form.
    /// Empty: the declared form is the final form.
    pub indirect: Vec<u16>,
    pub val: Val,
    /// 0 = canonical LEB128; otherwise the exact byte length of the (padded) LEB128 value
    pub leb_len: usize,
    /// byte length of each indirect form code (0 = canonical)
    pub form_leb_len: usize,
}

impl AttrVal {
    pub fn new(val: Val) -> AttrVal {
        AttrVal { indirect: vec![], val, leb_len: 0, form_leb_len: 0 }
    }
    pub fn u(v: u64) -> AttrVal {
        AttrVal::new(Val::U(v))
    }
}

#[derive(Clone, Debug)]
pub enum Item {
    Null,
    Die {
        /// index into the unit's table `decls`
        abbrev: usize,
        vals: Vec<AttrVal>,
        /// 0 = canonical abbreviation code; otherwise padded LEB128 length
        code_len: usize,
    },
}

#[derive(Clone, Copy, Debug, PartialEq, Eq, Hash)]
pub enum UnitKind {
    Compile,
    Type,
    Partial,
    Skeleton,
    SplitCompile,
    SplitType,
}

impl UnitKind {
    pub const ALL: [UnitKind; 6] =
        [UnitKind::Compile, UnitKind::Type, UnitKind::Partial, UnitKind::Skeleton, UnitKind::SplitCompile, UnitKind::SplitType];
    /// DW_UT_* code (DWARF 5 table 7.2)
    pub fn dw_ut(self) -> u8 {
        match self {
            UnitKind::Compile => 0x01,
            UnitKind::Type => 0x02,
            UnitKind::Partial => 0x03,
            UnitKind::Skeleton => 0x04,
            UnitKind::SplitCompile => 0x05,
            UnitKind::SplitType => 0x06,
        }
    }
    pub fn has_type(self) -> bool {
        matches!(self, UnitKind::Type | UnitKind::SplitType)
    }
    pub fn has_dwo_id(self) -> bool {
        matches!(self, UnitKind::Skeleton | UnitKind::SplitCompile)
    }
    /// Kinds that exist for `version` (before DWARF 5 only compile units and `.debug_types` type units).
    pub fn valid_for(self, version: u16) -> bool {
        version >= 5 || matches!(self, UnitKind::Compile | UnitKind::Type)
    }
}

#[derive(Clone, Debug)]
pub enum TypeOffset {
    Raw(u64),
    /// unit-relative offset of this item
    Item(usize),
}

#[derive(Clone, Debug)]
pub struct UnitCfg {
    pub enc: Enc,
    pub kind: UnitKind,
    /// index into `InfoCfg::tables`
    pub table: usize,
    pub type_signature: u64,
    pub type_offset: TypeOffset,
    pub dwo_id: u64,
    pub items: Vec<Item>,
}

impl UnitCfg {
    pub fn new(enc: Enc, kind: UnitKind, table: usize, items: Vec<Item>) -> UnitCfg {
        UnitCfg { enc, kind, table, type_signature: 0x1122_3344_5566_7788, type_offset: TypeOffset::Raw(0), dwo_id: 0x0102_0304_0506_0708, items }
    }
    /// Before DWARF 5, type units live in `.debug_types`.
    pub fn in_debug_types(&self) -> bool {
        self.enc.version < 5 && self.kind == UnitKind::Type
    }
}

#[derive(Clone, Debug)]
pub struct InfoCfg {
    pub le: bool,
    pub tables: Vec<AbbrevTable>,
    pub units: Vec<UnitCfg>,
    /// bytes of filler (0xee.., never parsed) before the first abbreviation table
    pub abbrev_lead: usize,
}

// ------------------------------------------------------------------ model

#[derive(Clone, Copy, Debug, PartialEq, Eq)]
pub enum Sec {
    Info,
    Types,
}

#[derive(Clone, Debug)]
pub struct TableModel {
    /// offset of the table in `.debug_abbrev`
    pub offset: u64,
    pub len: u64,
}

#[derive(Clone, Debug)]
pub struct AttrModel {
    pub name: u16,
    /// form declared in the abbreviation
    pub form: u16,
    /// form after following DW_FORM_indirect prefixes
    pub final_form: u16,
    pub implicit_const: i64,
    /// unit-relative offset of the first byte of the attribute (incl. indirect form codes)
    pub offset: u64,
    pub len: u64,
    pub expect: Expect,
}

#[derive(Clone, Debug)]
pub struct ItemModel {
    /// unit-relative offset
    pub offset: u64,
    pub len: u64,
    /// depth relative to the first item of the unit (Appendix A.3): a null is reported at the
    /// current depth and lowers it by one; an entry with children raises it by one
    pub depth: i64,
    pub null: bool,
    pub code: u64,
    pub tag: u16,
    pub children: bool,
    /// index into the table's `decls` (usize::MAX for nulls)
    pub abbrev: usize,
    pub attrs: Vec<AttrModel>,
}

#[derive(Clone, Debug)]
pub struct UnitModel {
    pub sec: Sec,
    /// offset of the unit in its section
    pub offset: u64,
    /// value of the unit_length field
    pub unit_length: u64,
    /// bytes from the start of the unit to its first DIE
    pub header_size: u64,
    /// unit-relative offset one past the last byte (initial length size + unit_length)
    pub end: u64,
    pub enc: Enc,
    pub kind: UnitKind,
    pub table: usize,
    pub abbrev_offset: u64,
    pub type_signature: u64,
    pub type_offset: u64,
    pub dwo_id: u64,
    pub items: Vec<ItemModel>,
    /// an attribute that must be rejected was encoded: items after it are not meaningful
    pub poisoned: bool,
}

#[derive(Clone, Debug)]
pub struct Built {
    pub le: bool,
    pub debug_abbrev: Vec<u8>,
    pub debug_info: Vec<u8>,
    pub debug_types: Vec<u8>,
    pub abbrev_fields: Vec<Field>,
    pub info_fields: Vec<Field>,
    pub types_fields: Vec<Field>,
    pub tables: Vec<TableModel>,
    pub units: Vec<UnitModel>,
}

// ------------------------------------------------------------------ encoding helpers

/// SLEB128 padded to exactly `n` bytes (n >= canonical length), still a valid encoding.
pub fn sleb_padded(v: i64, n: usize) -> Vec<u8> {
    let mut out = sleb_bytes(v);
    if out.len() < n {
        let fill: u8 = if v < 0 { 0x7f } else { 0x00 };
        let last = out.len() - 1;
        out[last] |= 0x80;
        while out.len() < n - 1 {
            out.push(fill | 0x80);
        }
        out.push(fill);
    }
    out
}

fn mask(n: usize) -> u64 {
    if n >= 8 {
        u64::MAX
    } else {
        (1u64 << (8 * n as u32)) - 1
    }
}

fn emit_uleb(a: &mut Asm, v: u64, len: usize) {
    if len == 0 {
        a.uleb(v);
    } else {
        let b = uleb_padded(v, len);
        a.bytes(&b);
    }
}

/// A patch to apply once item offsets are known.
struct Patch {
    /// absolute offset in the section buffer
    at: usize,
    kind: PatchKind,
    item: usize,
    delta: i64,
    /// (unit index, item index, attr index) of the attribute model to update
    who: (usize, usize),
}

enum PatchKind {
    Fixed(usize),
    Uleb(usize),
}

/// Encode one attribute value of final form `form`; returns the expected decoded value.
/// `unit_base` is the absolute offset of the unit in `a`.
fn encode_final(
    a: &mut Asm,
    enc: Enc,
    name: u16,
    form: u16,
    decl: &AttrDecl,
    via_indirect: bool,
    v: &AttrVal,
    patches: &mut Vec<Patch>,
    who: (usize, usize),
) -> Expect {
    let Some(lay) = forms::layout(form, enc) else {
        return Expect::Reject(Reject::UnknownForm);
    };
    let cls = forms::class(form, name, enc);
    let mk = |pay: Pay| Expect::Val(MVal { class: cls.unwrap_or(Class::Udata), pay });
    let as_u = |val: &Val| -> u64 {
        match val {
            Val::U(x) => *x,
            Val::S(x) => *x as u64,
            Val::U128(x) => *x as u64,
            Val::Bytes(b) => b.len() as u64,
            _ => 0,
        }
    };
    match lay {
        Layout::Fixed(n) => {
            if let Val::Ref { item, delta } = &v.val {
                let at = a.len();
                a.f_uint(FieldKind::Offset, "attr.ref", n, 0);
                patches.push(Patch { at, kind: PatchKind::Fixed(n), item: *item, delta: *delta, who });
                return mk(Pay::Int(0));
            }
            if n == 16 {
                let x = match &v.val {
                    Val::U128(x) => *x,
                    other => as_u(other) as u128,
                };
                let off = a.len();
                a.u128(x);
                a.fields.push(Field { off, len: 16, kind: FieldKind::Data, name: "attr.data16" });
                return mk(Pay::Big(x));
            }
            let x = as_u(&v.val) & mask(n);
            let kind = match cls {
                Some(Class::Addr) => FieldKind::Address,
                Some(Class::Data1 | Class::Data2 | Class::Data4 | Class::Data8 | Class::Flag) => FieldKind::Data,
                Some(Class::StrOffsetsIndex | Class::AddrIndex) => FieldKind::Index,
                _ => FieldKind::Offset,
            };
            if n > 0 {
                a.f_uint(kind, "attr.fixed", n, x);
            }
            if cls == Some(Class::Flag) {
                // flag_present has no bytes and is true; flag is true iff the byte is non-zero
                return mk(Pay::Flag(if n == 0 { true } else { x != 0 }));
            }
            mk(Pay::Int(x as i128))
        }
        Layout::Uleb => {
            if let Val::Ref { item, delta } = &v.val {
                let len = if v.leb_len == 0 { 5 } else { v.leb_len };
                let at = a.len();
                let b = uleb_padded(0, len);
                a.f_bytes(FieldKind::Uleb, "attr.ref_uleb", &b);
                patches.push(Patch { at, kind: PatchKind::Uleb(len), item: *item, delta: *delta, who });
                return mk(Pay::Int(0));
            }
            let x = as_u(&v.val);
            let b = if v.leb_len == 0 { uleb_bytes(x) } else { uleb_padded(x, v.leb_len) };
            a.f_bytes(FieldKind::Uleb, "attr.uleb", &b);
            mk(Pay::Int(x as i128))
        }
        Layout::Sleb => {
            let x = match &v.val {
                Val::S(x) => *x,
                other => as_u(other) as i64,
            };
            let b = if v.leb_len == 0 { sleb_bytes(x) } else { sleb_padded(x, v.leb_len) };
            a.f_bytes(FieldKind::Sleb, "attr.sleb", &b);
            mk(Pay::Int(x as i128))
        }
        Layout::BlockN(n) => {
            let empty = vec![];
            let bytes = match &v.val {
                Val::Bytes(b) => b,
                _ => &empty,
            };
            let len = (bytes.len() as u64 & mask(n)) as usize;
            a.f_uint(FieldKind::Length, "attr.block_len", n, len as u64);
            a.bytes(&bytes[..len]);
            mk(Pay::Bytes(bytes[..len].to_vec()))
        }
        Layout::BlockUleb => {
            let empty = vec![];
            let bytes = match &v.val {
                Val::Bytes(b) => b,
                _ => &empty,
            };
            let lb = if v.leb_len == 0 { uleb_bytes(bytes.len() as u64) } else { uleb_padded(bytes.len() as u64, v.leb_len) };
            a.f_bytes(FieldKind::Length, "attr.block_len", &lb);
            a.bytes(bytes);
            mk(Pay::Bytes(bytes.clone()))
        }
        Layout::CStr => {
            let empty = vec![];
            let bytes = match &v.val {
                Val::Bytes(b) => b,
                _ => &empty,
            };
            // a string ends at its first NUL
            let cut = bytes.iter().position(|&c| c == 0).unwrap_or(bytes.len());
            let off = a.len();
            a.cstr(&bytes[..cut]);
            a.fields.push(Field { off, len: cut + 1, kind: FieldKind::Str, name: "attr.string" });
            mk(Pay::Bytes(bytes[..cut].to_vec()))
        }
        Layout::ImplicitConst => {
            if via_indirect {
                Expect::Reject(Reject::IndirectImplicitConst)
            } else {
                mk(Pay::Int(decl.implicit_const as i128))
            }
        }
        Layout::Indirect => {
            // an indirect chain that ends in DW_FORM_indirect cannot be encoded; callers never ask
            Expect::Reject(Reject::UnknownForm)
        }
    }
}

// ------------------------------------------------------------------ build

impl InfoCfg {
    pub fn build(&self) -> Built {
        // ---- .debug_abbrev
        let mut ab = Asm::new(self.le);
        for _ in 0..self.abbrev_lead {
            ab.u8(0xee);
        }
        let mut tables = vec![];
        for t in &self.tables {
            let start = ab.len();
            for d in &t.decls {
                ab.f_uleb(FieldKind::Other, "abbrev.code", d.code);
                ab.f_uleb(FieldKind::Other, "abbrev.tag", d.tag as u64);
                ab.f_uint(FieldKind::Other, "abbrev.children", 1, d.children as u64);
                for at in &d.attrs {
                    ab.f_uleb(FieldKind::Other, "abbrev.attr_name", at.name as u64);
                    ab.f_uleb(FieldKind::Form, "abbrev.attr_form", at.form as u64);
                    if at.form == forms::F_IMPLICIT_CONST {
                        ab.f_sleb(FieldKind::Sleb, "abbrev.implicit_const", at.implicit_const);
                    }
                }
                ab.u8(0).u8(0);
            }
            if t.terminated {
                ab.f_uint(FieldKind::Other, "abbrev.end", 1, 0);
            }
            tables.push(TableModel { offset: start as u64, len: (ab.len() - start) as u64 });
        }

        // ---- units
        let mut info = Asm::new(self.le);
        let mut types = Asm::new(self.le);
        let mut units: Vec<UnitModel> = vec![];
        for (ui, u) in self.units.iter().enumerate() {
            let enc = u.enc;
            // kinds that do not exist before DWARF 5 degrade to a plain compile unit
            let kind = if u.kind.valid_for(enc.version) { u.kind } else { UnitKind::Compile };
            let in_types = enc.version < 5 && kind == UnitKind::Type;
            let a: &mut Asm = if in_types { &mut types } else { &mut info };
            let base = a.len();
            let mark = a.begin_length(enc.fmt64);
            a.f_uint(FieldKind::Version, "unit.version", 2, enc.version as u64);
            let abbrev_offset = tables.get(u.table).map(|t| t.offset).unwrap_or(0);
            let mut type_off_at = None;
            if enc.version >= 5 {
                a.f_uint(FieldKind::Other, "unit.unit_type", 1, kind.dw_ut() as u64);
                a.f_uint(FieldKind::Size, "unit.address_size", 1, enc.addr as u64);
                a.f_uint(FieldKind::Offset, "unit.debug_abbrev_offset", enc.word() as usize, abbrev_offset);
            } else {
                a.f_uint(FieldKind::Offset, "unit.debug_abbrev_offset", enc.word() as usize, abbrev_offset);
                a.f_uint(FieldKind::Size, "unit.address_size", 1, enc.addr as u64);
            }
            if kind.has_type() {
                a.f_uint(FieldKind::Data, "unit.type_signature", 8, u.type_signature);
                type_off_at = Some(a.len());
                a.f_uint(FieldKind::Offset, "unit.type_offset", enc.word() as usize, 0);
            } else if kind.has_dwo_id() && enc.version >= 5 {
                a.f_uint(FieldKind::Data, "unit.dwo_id", 8, u.dwo_id);
            }
            let header_size = (a.len() - base) as u64;

            // DIE stream
            let decls: &[AbbrevDecl] = self.tables.get(u.table).map(|t| &t.decls[..]).unwrap_or(&[]);
            let mut items: Vec<ItemModel> = vec![];
            let mut patches: Vec<Patch> = vec![];
            let mut depth: i64 = 0;
            let mut poisoned = false;
            for (ii, it) in u.items.iter().enumerate() {
                let off = a.len();
                match it {
                    Item::Null => {
                        a.f_uint(FieldKind::Other, "die.null", 1, 0);
                        items.push(ItemModel {
                            offset: (off - base) as u64,
                            len: 1,
                            depth,
                            null: true,
                            code: 0,
                            tag: 0,
                            children: false,
                            abbrev: usize::MAX,
                            attrs: vec![],
                        });
                        depth -= 1;
                    }
                    Item::Die { abbrev, vals, code_len } => {
                        let d = &decls[*abbrev];
                        let cb = if *code_len == 0 { uleb_bytes(d.code) } else { uleb_padded(d.code, *code_len) };
                        a.f_bytes(FieldKind::Uleb, "die.code", &cb);
                        let mut attrs = vec![];
                        for (k, ad) in d.attrs.iter().enumerate() {
                            let dflt = AttrVal::u(0);
                            let v = vals.get(k).unwrap_or(&dflt);
                            let aoff = a.len();
                            // follow the declared form through the indirect chain
                            let mut form = ad.form;
                            let mut via_indirect = false;
                            let mut chain = v.indirect.iter();
                            let mut expect = None;
                            while form == forms::F_INDIRECT {
                                let Some(&next) = chain.next() else {
                                    // declared indirect but no chain given: encode data1
                                    let b = uleb_bytes(forms::F_DATA1 as u64);
                                    a.f_bytes(FieldKind::Form, "attr.indirect_form", &b);
                                    form = forms::F_DATA1;
                                    via_indirect = true;
                                    break;
                                };
                                let b = if v.form_leb_len == 0 { uleb_bytes(next as u64) } else { uleb_padded(next as u64, v.form_leb_len) };
                                a.f_bytes(FieldKind::Form, "attr.indirect_form", &b);
                                form = next;
                                via_indirect = true;
                            }
                            if expect.is_none() {
                                let who = (items.len(), k);
                                expect = Some(encode_final(a, enc, ad.name, form, ad, via_indirect, v, &mut patches, who));
                            }
                            let expect = expect.unwrap();
                            if matches!(expect, Expect::Reject(_)) {
                                poisoned = true;
                            }
                            attrs.push(AttrModel {
                                name: ad.name,
                                form: ad.form,
                                final_form: form,
                                implicit_const: ad.implicit_const,
                                offset: (aoff - base) as u64,
                                len: (a.len() - aoff) as u64,
                                expect,
                            });
                        }
                        items.push(ItemModel {
                            offset: (off - base) as u64,
                            len: (a.len() - off) as u64,
                            depth,
                            null: false,
                            code: d.code,
                            tag: d.tag,
                            children: d.children,
                            abbrev: *abbrev,
                            attrs,
                        });
                        if d.children {
                            depth += 1;
                        }
                    }
                }
                let _ = ii;
            }
            a.end_length(mark);
            let end = (a.len() - base) as u64;
            let isz = if enc.fmt64 { 12 } else { 4 };
            let unit_length = end - isz;

            // resolve references
            let offs: Vec<u64> = items.iter().map(|m| m.offset).collect();
            let item_off = |i: usize| -> u64 { offs.get(i).copied().unwrap_or(end) };
            for p in &patches {
                let target = (item_off(p.item) as i64).wrapping_add(p.delta) as u64;
                let shown = match p.kind {
                    PatchKind::Fixed(n) => {
                        a.patch_uint(p.at, n, target & mask(n));
                        target & mask(n)
                    }
                    PatchKind::Uleb(len) => {
                        // value must fit 7*len bits
                        let bits = 7 * len as u32;
                        let t = if bits >= 64 { target } else { target & ((1u64 << bits) - 1) };
                        let b = uleb_padded(t, len);
                        a.buf[p.at..p.at + len].copy_from_slice(&b[..len]);
                        t
                    }
                };
                if let Some(am) = items.get_mut(p.who.0).and_then(|m| m.attrs.get_mut(p.who.1)) {
                    if let Expect::Val(mv) = &mut am.expect {
                        mv.pay = Pay::Int(shown as i128);
                    }
                }
            }
            let type_offset = match &u.type_offset {
                TypeOffset::Raw(x) => *x,
                TypeOffset::Item(i) => item_off(*i),
            };
            if let Some(at) = type_off_at {
                a.patch_uint(at, enc.word() as usize, type_offset);
            }
            let type_offset = if enc.fmt64 { type_offset } else { type_offset & 0xffff_ffff };
            units.push(UnitModel {
                sec: if in_types { Sec::Types } else { Sec::Info },
                offset: base as u64,
                unit_length,
                header_size,
                end,
                enc,
                kind,
                table: u.table,
                abbrev_offset,
                type_signature: u.type_signature,
                type_offset,
                dwo_id: u.dwo_id,
                items,
                poisoned,
            });
            let _ = ui;
        }
        Built {
            le: self.le,
            debug_abbrev: ab.buf,
            debug_info: info.buf,
            debug_types: types.buf,
            abbrev_fields: ab.fields,
            info_fields: info.fields,
            types_fields: types.fields,
            tables,
            units,
        }
    }
}

// ------------------------------------------------------------------ workload helpers

/// Deterministic filler bytes (never 0, so they can be string contents).
pub fn filler(n: usize, salt: u64) -> Vec<u8> {
    (0..n).map(|i| (((i as u64).wrapping_mul(31).wrapping_add(salt.wrapping_mul(7))) % 251 + 1) as u8).collect()
}

/// Boundary payload set of (final) form `form`: 0, 1, max, sign boundaries, 1/2/9/10-byte
/// LEB128 (canonical and padded), empty/1/127/128/255/256/65535/70 000-byte blocks and strings.
pub fn boundary_vals(form: u16, enc: Enc) -> Vec<AttrVal> {
    let mut out = vec![];
    let Some(lay) = forms::layout(form, enc) else {
        return vec![AttrVal::u(0)];
    };
    match lay {
        Layout::Fixed(0) | Layout::ImplicitConst => out.push(AttrVal::new(Val::Nothing)),
        Layout::Fixed(16) => {
            for x in [0u128, 1, u128::MAX, 1u128 << 127, (1u128 << 127) - 1, 0x0102_0304_0506_0708_090a_0b0c_0d0e_0f10, 1u128 << 64] {
                out.push(AttrVal::new(Val::U128(x)));
            }
        }
        Layout::Fixed(n) => {
            let m = mask(n);
            let sign = 1u64 << (8 * n as u32 - 1);
            for x in [0, 1, 2, 0x7f, 0x80, 0xff, m, m - 1, sign, sign - 1, 0x0102_0304_0506_0708 & m, 0xf1f2_f3f4_f5f6_f7f8 & m] {
                let v = AttrVal::u(x & m);
                if !out.contains(&v) {
                    out.push(v);
                }
            }
        }
        Layout::Uleb => {
            for x in [0u64, 1, 0x7f, 0x80, 0x3fff, 0x4000, 0xffff_ffff, 1 << 32, (1 << 56) - 1, 1 << 56, i64::MAX as u64, 1 << 63, u64::MAX] {
                out.push(AttrVal::u(x));
            }
            for (x, l) in [(0u64, 2usize), (1, 9), (1, 10), (0x7f, 10), (0x80, 3), (i64::MAX as u64, 10), (0, 10)] {
                out.push(AttrVal { leb_len: l, ..AttrVal::u(x) });
            }
        }
        Layout::Sleb => {
            for x in [0i64, 1, -1, 63, 64, -64, -65, 8191, 8192, -8192, -8193, i32::MAX as i64, i32::MIN as i64, (1 << 62) - 1, 1 << 62, -(1 << 62) - 1, i64::MAX, i64::MIN] {
                out.push(AttrVal::new(Val::S(x)));
            }
            for (x, l) in [(0i64, 2usize), (-1, 2), (1, 9), (-2, 10), (5, 10), (i64::MIN, 10), (-64, 3)] {
                out.push(AttrVal { leb_len: l, ..AttrVal::new(Val::S(x)) });
            }
        }
        Layout::BlockN(n) => {
            for len in [0usize, 1, 2, 127, 128, 255, 256, 65535, 65536, 70_000] {
                if (len as u64) <= mask(n) {
                    out.push(AttrVal::new(Val::Bytes(block_bytes(len))));
                }
            }
        }
        Layout::BlockUleb => {
            for len in [0usize, 1, 127, 128, 16383, 16384, 70_000] {
                out.push(AttrVal::new(Val::Bytes(block_bytes(len))));
            }
            out.push(AttrVal { leb_len: 2, ..AttrVal::new(Val::Bytes(block_bytes(3))) });
            out.push(AttrVal { leb_len: 10, ..AttrVal::new(Val::Bytes(block_bytes(0))) });
        }
        Layout::CStr => {
            for len in [0usize, 1, 2, 127, 128, 70_000] {
                out.push(AttrVal::new(Val::Bytes(filler(len, len as u64))));
            }
        }
        Layout::Indirect => out.push(AttrVal { indirect: vec![forms::F_DATA1], ..AttrVal::u(0x5a) }),
    }
    out
}

/// Block contents including NULs and 0x80.. bytes (blocks are opaque).
pub fn block_bytes(n: usize) -> Vec<u8> {
    (0..n).map(|i| (i as u8).wrapping_mul(37).wrapping_add(if i % 5 == 0 { 0 } else { 0x80 })).collect()
}

/// A random payload for (final) form `form` (boundary-biased numbers, short blocks/strings).
pub fn random_val(r: &mut Rng, form: u16, enc: Enc) -> AttrVal {
    let Some(lay) = forms::layout(form, enc) else {
        return AttrVal::u(r.below(256));
    };
    match lay {
        Layout::Fixed(0) | Layout::ImplicitConst => AttrVal::new(Val::Nothing),
        Layout::Fixed(16) => AttrVal::new(Val::U128(((r.boundary() as u128) << 64) | r.boundary() as u128)),
        Layout::Fixed(n) => AttrVal::u(r.boundary() & mask(n)),
        Layout::Uleb => {
            let x = r.boundary();
            let mut v = AttrVal::u(x);
            if r.chance(1, 5) {
                let c = uleb_bytes(x).len();
                v.leb_len = (c + r.usize(3)).min(10);
                if v.leb_len == c {
                    v.leb_len = 0;
                }
            }
            v
        }
        Layout::Sleb => {
            let x = r.boundary() as i64;
            let mut v = AttrVal::new(Val::S(x));
            if r.chance(1, 5) {
                let c = sleb_bytes(x).len();
                v.leb_len = (c + r.usize(3)).min(10);
                if v.leb_len == c {
                    v.leb_len = 0;
                }
            }
            v
        }
        Layout::BlockN(n) => {
            let max = mask(n).min(300);
            let len = r.small(max) as usize;
            AttrVal::new(Val::Bytes(r.bytes(len)))
        }
        Layout::BlockUleb => {
            let len = r.small(300) as usize;
            AttrVal::new(Val::Bytes(r.bytes(len)))
        }
        Layout::CStr => {
            let len = r.small(200) as usize;
            AttrVal::new(Val::Bytes(r.bytes(len).into_iter().map(|b| if b == 0 { 1 } else { b }).collect()))
        }
        Layout::Indirect => {
            // random chain of depth 1..=3 ending in a concrete form
            let depth = 1 + r.usize(3);
            let mut chain = vec![forms::F_INDIRECT; depth - 1];
            let fin = loop {
                let f = forms::FORMS[r.usize(forms::FORMS.len())].0;
                if f != forms::F_INDIRECT && f != forms::F_IMPLICIT_CONST {
                    break f;
                }
            };
            chain.push(fin);
            let inner = random_val(r, fin, enc);
            AttrVal { indirect: chain, form_leb_len: if r.chance(1, 6) { 3 } else { 0 }, ..inner }
        }
    }
}

/// Every ordered forest with `n` nodes as a pre-order depth sequence (d0 = 0,
/// 0 <= d[i+1] <= d[i] + 1).  Catalan(n) sequences: 1, 2, 5, 14, 42, 132, 429 for n = 1..7.
pub fn forest_depths(n: usize) -> Vec<Vec<u8>> {
    let mut out = vec![];
    if n == 0 {
        return vec![vec![]];
    }
    let mut cur = vec![0u8];
    // iterative DFS over sequences
    let mut stack: Vec<(Vec<u8>,)> = vec![(cur.clone(),)];
    while let Some((seq,)) = stack.pop() {
        if seq.len() == n {
            out.push(seq);
            continue;
        }
        let last = *seq.last().unwrap();
        for d in (0..=last + 1).rev() {
            let mut s = seq.clone();
            s.push(d);
            stack.push((s,));
        }
    }
    cur.clear();
    out
}

/// Build a DIE stream from a pre-order depth sequence.  `abbrev_for(i, has_children)` picks
/// the abbreviation (index into decls) of node i; its `children` flag must equal
/// `has_children`.  `leaf_children[i]` marks a leaf that is nevertheless encoded with
/// the children flag (an empty child list: the node is immediately followed by a null).
/// `vals_for(i)` provides the attribute values.  Returns the items and, for every node, the
/// index of its item.  The stream closes every open child list with a null; top-level
/// entries are not followed by a null.
pub fn items_from_depths(
    depths: &[u8],
    leaf_children: &[bool],
    mut abbrev_for: impl FnMut(usize, bool) -> usize,
    mut vals_for: impl FnMut(usize) -> Vec<AttrVal>,
) -> (Vec<Item>, Vec<usize>) {
    let mut items = vec![];
    let mut node_item = vec![];
    let n = depths.len();
    // open[k] = true if the list at depth k+1 is open (its parent had the children flag)
    let mut cur_depth: i64 = 0;
    for i in 0..n {
        let d = depths[i] as i64;
        // close lists until we are at depth d
        while cur_depth > d {
            items.push(Item::Null);
            cur_depth -= 1;
        }
        let has_child = i + 1 < n && depths[i + 1] as i64 == d + 1;
        let flag = has_child || leaf_children.get(i).copied().unwrap_or(false);
        node_item.push(items.len());
        items.push(Item::Die { abbrev: abbrev_for(i, flag), vals: vals_for(i), code_len: 0 });
        if flag {
            cur_depth = d + 1;
            if !has_child {
                // empty child list
                items.push(Item::Null);
                cur_depth = d;
            }
        }
    }
    while cur_depth > 0 {
        items.push(Item::Null);
        cur_depth -= 1;
    }
    (items, node_item)
}

/// One unit with one childless DIE carrying the given attributes (C03 building block).
pub fn simple_unit(enc: Enc, kind: UnitKind, decls: Vec<AttrDecl>, vals: Vec<AttrVal>) -> InfoCfg {
    InfoCfg {
        le: enc.le,
        tables: vec![AbbrevTable { decls: vec![AbbrevDecl { code: 1, tag: 0x11, children: false, attrs: decls }], terminated: true }],
        units: vec![UnitCfg::new(enc, kind, 0, vec![Item::Die { abbrev: 0, vals, code_len: 0 }])],
        abbrev_lead: 0,
    }
}
